//! C18: registration is validated and makes items reachable where declared.
//!
//! One case = a sequence of `Runtime::add` calls on a fresh `Runtime::new()`.
//! Every library is described as JSON (same shape as the records of
//! spec/Registration.tla) and is built here with the PUBLIC item constructors
//! (`Module::new`, `Type::clone/copy`, `Function::new`, `Constant::new`,
//! `Impl::new`, `Use::new`); a few fixed shapes are built with `library!`.
//! A refused add that the case marks `after` is followed by the probes of the items of
//! the earlier adds (they must be unchanged) and by the next add.
//! After a successful add the requested probes are compiled as scripts that
//! call the item / read the constant / pass a value of the type through the
//! given path; the observed tag is reported.  Nothing is judged here: the
//! expected outcome and tags come from the specification (lib/checks/c18.py).
//!
//! modes (first extra argument):
//!   replay  - cases carry their probes (computed by TLC)
//!   record  - cases carry a seed; libraries and probes are generated here
use std::sync::Mutex;

use roto::{
    Constant, FileTree, Function, Impl, Item, Library, List, Module, NoCtx, Registerable, RotoString, Runtime, Type,
    Use, Val, Value, Verdict, library, location,
};
use rvh::batch::{Progress, parse_args, run_batch};
use serde_json::{Value as J, json};

// ---------------------------------------------------------------- Rust menu

#[derive(Clone, Copy, Debug, PartialEq)]
pub struct TA {
    tag: i32,
}
#[derive(Clone, Copy, Debug, PartialEq)]
pub struct TB {
    tag: i32,
}
#[derive(Clone, Copy, Debug, PartialEq)]
pub struct TC {
    tag: i32,
    pad: [i64; 3],
}
#[derive(Clone, Copy, Debug, PartialEq)]
pub struct TD {
    tag: i32,
}

/// The types a signature may mention: index 0 = i32, 1..4 = Val<TA>..Val<TD>.
trait Tv: Value + Clone + Send + Sync + 'static {
    fn get(&self) -> i32;
    fn make(v: i32) -> Self;
}
impl Tv for i32 {
    fn get(&self) -> i32 {
        *self
    }
    fn make(v: i32) -> Self {
        v
    }
}
impl Tv for Val<TA> {
    fn get(&self) -> i32 {
        self.0.tag
    }
    fn make(v: i32) -> Self {
        Val(TA { tag: v })
    }
}
impl Tv for Val<TB> {
    fn get(&self) -> i32 {
        self.0.tag
    }
    fn make(v: i32) -> Self {
        Val(TB { tag: v })
    }
}
impl Tv for Val<TC> {
    fn get(&self) -> i32 {
        self.0.tag
    }
    fn make(v: i32) -> Self {
        Val(TC { tag: v, pad: [v as i64; 3] })
    }
}
impl Tv for Val<TD> {
    fn get(&self) -> i32 {
        self.0.tag
    }
    fn make(v: i32) -> Self {
        Val(TD { tag: v })
    }
}


macro_rules! with_ty {
    ($idx:expr, $T:ident, $body:expr) => {
        match $idx {
            0 => {
                type $T = i32;
                $body
            }
            1 => {
                type $T = Val<TA>;
                $body
            }
            2 => {
                type $T = Val<TB>;
                $body
            }
            3 => {
                type $T = Val<TC>;
                $body
            }
            4 => {
                type $T = Val<TD>;
                $body
            }
            k => panic!("harness: type index {k} not in the menu"),
        }
    };
}

/// value of argument number i (0-based) passed by a probe
fn argval(i: usize) -> i32 {
    (i as i32) + 1
}
/// what a registered function with tag `tag` returns for the probe arguments
fn expected_ret(tag: i32, nargs: usize) -> i32 {
    let mut v = tag * 100;
    for i in 0..nargs {
        v += (i as i32 + 1) * argval(i);
    }
    v
}


// ---------------------------------------------------------------- table types (codes >= 5)
//
// Types with a code >= 5 (u32, bool, String and the Option / List / Result / Verdict types over them
// and Val<TA>, see spec/Registration.tla TyKind/TyArgs) are observed through their values:
// canon(sel) is the canonical value number sel, code() its observation (Obs of the spec).
include!("../tables/c18_sigs.rs");

trait Cv: Value + Clone + Send + Sync + 'static {
    /// weight of the outermost level: 1 for a leaf, 10 / 100 for a compound type
    const W: i32;
    /// component types (Self for a leaf)
    type A: Cv;
    type B: Cv;
    fn canon(sel: i32) -> Self;
    fn code(&self) -> i32;
}
macro_rules! cv_leaf {
    ($t:ty, $canon:expr, $code:expr) => {
        impl Cv for $t {
            const W: i32 = 1;
            type A = Self;
            type B = Self;
            fn canon(_sel: i32) -> Self {
                $canon
            }
            fn code(&self) -> i32 {
                let f: fn(&$t) -> i32 = $code;
                f(self)
            }
        }
    };
}
cv_leaf!(u32, 7, |x| *x as i32);
cv_leaf!(bool, true, |x| if *x { 1 } else { 0 });
cv_leaf!(RotoString, RotoString::from("abc"), |x| x.len() as i32);
cv_leaf!(Val<TA>, Val(TA { tag: 5 }), |x| x.0.tag);
const fn maxw(a: i32, b: i32) -> i32 {
    if a > b { a } else { b }
}
impl<X: Cv> Cv for Option<X> {
    const W: i32 = 10 * X::W;
    type A = X;
    type B = X;
    fn canon(sel: i32) -> Self {
        if sel % 2 == 0 { Some(X::canon(sel / 2)) } else { None }
    }
    fn code(&self) -> i32 {
        match self {
            Some(x) => Self::W + x.code(),
            None => 2 * Self::W,
        }
    }
}
impl<X: Cv> Cv for List<X>
where
    X::Transformed: PartialEq,
{
    const W: i32 = 10 * X::W;
    type A = X;
    type B = X;
    fn canon(sel: i32) -> Self {
        if sel % 2 == 0 { List::from(vec![X::canon(sel / 2)]) } else { List::from(Vec::<X>::new()) }
    }
    fn code(&self) -> i32 {
        match self.to_vec().first() {
            Some(x) => Self::W + x.code(),
            None => 2 * Self::W,
        }
    }
}
impl<X: Cv, Y: Cv> Cv for Result<X, Y> {
    const W: i32 = 10 * maxw(X::W, Y::W);
    type A = X;
    type B = Y;
    fn canon(sel: i32) -> Self {
        if sel % 2 == 0 { Ok(X::canon(sel / 2)) } else { Err(Y::canon(sel / 2)) }
    }
    fn code(&self) -> i32 {
        match self {
            Ok(x) => Self::W + x.code(),
            Err(y) => 2 * Self::W + y.code(),
        }
    }
}
impl<X: Cv, Y: Cv> Cv for Verdict<X, Y> {
    const W: i32 = 10 * maxw(X::W, Y::W);
    type A = X;
    type B = Y;
    fn canon(sel: i32) -> Self {
        if sel % 2 == 0 { Verdict::Accept(X::canon(sel / 2)) } else { Verdict::Reject(Y::canon(sel / 2)) }
    }
    fn code(&self) -> i32 {
        match self {
            Verdict::Accept(x) => Self::W + x.code(),
            Verdict::Reject(y) => 2 * Self::W + y.code(),
        }
    }
}

/// components of a type code
fn ty_args(t: i64) -> (i64, Vec<i64>) {
    if t < 100 {
        return (0, vec![]);
    }
    let (k, a) = if t < 1000 { (t / 100, vec![(t / 10) % 10, t % 10]) } else { (t / 1_000_000, vec![(t / 1000) % 1000, t % 1000]) };
    (k, if k <= 2 { a[..1].to_vec() } else { a })
}

type RegRes<T> = Result<T, roto::RegistrationError>;

/// fn(i32) -> S: the canonical value number `sel`
fn reg_ret<S: Cv>(name: &str) -> RegRes<Function> {
    Function::new(name, "doc", vec!["sel"], move |sel: i32| -> S { S::canon(sel) }, location!())
}
/// fn(S) -> i32: tag * 1000 + observation of the argument
fn reg_par<S: Cv>(name: &str, tag: i32) -> RegRes<Function> {
    Function::new(name, "doc", vec!["x"], move |x: S| -> i32 { tag * 1000 + x.code() }, location!())
}
/// fn(Val<TA>, S) -> i32 (method of T)
fn reg_meth<S: Cv>(name: &str, tag: i32) -> RegRes<Function> {
    Function::new(name, "doc", vec!["a", "x"], move |_a: Val<TA>, x: S| -> i32 { tag * 1000 + x.code() }, location!())
}
fn reg_const<S: Cv>(name: &str) -> RegRes<Constant>
where
    S::Transformed: Send + Sync + 'static,
{
    Constant::new(name, "doc", S::canon(0), location!())
}

fn fn0<R: Tv>(name: &str, tag: i32) -> RegRes<Function> {
    Function::new(name, "doc", vec![], move || -> R { R::make(tag * 100) }, location!())
}
fn fn1<P0: Tv, R: Tv>(name: &str, tag: i32) -> RegRes<Function> {
    Function::new(name, "doc", vec!["a"], move |a: P0| -> R { R::make(tag * 100 + a.get()) }, location!())
}
fn fn2<P0: Tv, P1: Tv, R: Tv>(name: &str, tag: i32) -> RegRes<Function> {
    Function::new(
        name,
        "doc",
        vec!["a", "b"],
        move |a: P0, b: P1| -> R { R::make(tag * 100 + a.get() + 2 * b.get()) },
        location!(),
    )
}

fn mk_function(name: &str, ps: &[i64], r: i64, tag: i32) -> RegRes<Function> {
    if r >= 5 || ps.iter().any(|t| *t >= 5) {
        // table types come in three fixed shapes
        return match (ps, r) {
            ([0], r) => with_sig!(r, S, reg_ret::<S>(name)),
            ([t], 0) => with_sig!(*t, S, reg_par::<S>(name, tag)),
            ([1, t], 0) => with_sig!(*t, S, reg_meth::<S>(name, tag)),
            _ => panic!("harness: signature {ps:?} -> {r} with a table type is not one of the supported shapes"),
        };
    }
    match ps.len() {
        0 => with_ty!(r, R, fn0::<R>(name, tag)),
        1 => with_ty!(r, R, with_ty!(ps[0], P0, fn1::<P0, R>(name, tag))),
        2 => with_ty!(r, R, with_ty!(ps[0], P0, with_ty!(ps[1], P1, fn2::<P0, P1, R>(name, tag)))),
        n => panic!("harness: arity {n} not in the menu"),
    }
}

fn mk_type(name: &str, rust: i64, mov: &str) -> RegRes<Type> {
    macro_rules! t {
        ($T:ty) => {
            if mov == "copy" {
                Type::copy::<$T>(name, "doc", location!())
            } else {
                Type::clone::<$T>(name, "doc", location!())
            }
        };
    }
    match rust {
        1 => t!(Val<TA>),
        2 => t!(Val<TB>),
        3 => t!(Val<TC>),
        4 => t!(Val<TD>),
        k => panic!("harness: rust type {k} cannot be registered from the menu"),
    }
}

fn mk_const(name: &str, ty: i64, tag: i32) -> RegRes<Constant> {
    if ty >= 5 {
        return with_sig!(ty, S, reg_const::<S>(name));
    }
    with_ty!(ty, T, Constant::new(name, "doc", <T as Tv>::make(tag * 100), location!()))
}

fn mk_impl(ty: i64) -> Impl {
    with_ty!(ty, T, Impl::new::<T>(location!()))
}

fn strs(v: &J) -> Vec<String> {
    v.as_array().map(|a| a.iter().map(|s| s.as_str().unwrap().to_string()).collect()).unwrap_or_default()
}
fn ints(v: &J) -> Vec<i64> {
    v.as_array().map(|a| a.iter().map(|s| s.as_i64().unwrap()).collect()).unwrap_or_default()
}

/// Build one item from its description with the public constructors.
fn build_item(d: &J) -> RegRes<Item> {
    let k = d["k"].as_str().unwrap();
    let name = d["name"].as_str().unwrap_or("");
    Ok(match k {
        "mod" => {
            let mut m = Module::new(name, "doc", location!())?;
            for c in d["items"].as_array().unwrap() {
                m.add(build_item(c)?);
            }
            Item::Module(m)
        }
        "type" => Item::Type(mk_type(name, d["ty"].as_i64().unwrap(), d["mov"].as_str().unwrap_or("clone"))?),
        "fn" => {
            Item::Function(mk_function(name, &ints(&d["ps"]), d["r"].as_i64().unwrap(), d["tag"].as_i64().unwrap() as i32)?)
        }
        "const" => Item::Constant(mk_const(name, d["ty"].as_i64().unwrap(), d["tag"].as_i64().unwrap() as i32)?),
        "impl" => {
            let mut m = mk_impl(d["ty"].as_i64().unwrap());
            for c in d["items"].as_array().unwrap() {
                m.add(build_item(c)?);
            }
            Item::Impl(m)
        }
        "use" => {
            let paths: Vec<Vec<String>> = d["paths"].as_array().unwrap().iter().map(strs).collect();
            Item::Use(Use::new(paths, location!()))
        }
        k => panic!("harness: unknown item kind {k}"),
    })
}

fn build_lib(lib: &J) -> RegRes<Library> {
    let mut l = Library::new();
    for d in lib.as_array().unwrap() {
        l.add(build_item(d)?);
    }
    Ok(l)
}

/// The fixed shapes that are (also) built with `library!`; the JSON description
/// of each is in lib/checks/c18.py (MACRO_SHAPES) and must describe the same library.
fn macro_lib(shape: &str) -> Library {
    match shape {
        "flat" => library! {
            #[clone] type T = Val<TA>;
            #[copy] type U = Val<TB>;
            fn f3(a: i32) -> i32 { 4 * 100 + a }
            fn f4(a: Val<TA>, b: Val<TB>) -> Val<TA> { Val(TA { tag: 5 * 100 + a.0.tag + 2 * b.0.tag }) }
            const C2: i32 = 800;
            const C3: Val<TA> = Val(TA { tag: 900 });
            impl Val<TA> {
                fn g1(a: Val<TA>) -> i32 { 6 * 100 + a.0.tag }
                fn g2() -> i32 { 700 }
            }
        },
        "order" => library! {
            use ma::f1;
            use mb::n::f2;
            impl Val<TA> {
                fn g1(a: Val<TA>) -> i32 { 6 * 100 + a.0.tag }
            }
            const C3: Val<TA> = Val(TA { tag: 900 });
            mod mb {
                mod n {
                    fn f2(a: Val<TA>) -> i32 { 3 * 100 + a.0.tag }
                }
            }
            mod ma {
                fn f1() -> i32 { 100 }
                const C1: i32 = 200;
            }
            #[clone] type T = Val<TA>;
        },
        "nested" => library! {
            mod mc {
                #[copy] type W = Val<TC>;
                let f5 = |a: Val<TC>| -> Val<TC> { Val(TC { tag: 10 * 100 + a.0.tag, pad: [0; 3] }) };
                impl Val<TC> {
                    fn g3(a: Val<TC>, b: i32) -> i32 { 11 * 100 + a.0.tag + 2 * b }
                    const C4: i32 = 1200;
                }
                mod 東京 {
                    fn é1() -> i32 { 1300 }
                }
            }
            use mc::W;
            use mc::東京::é1;
        },
        "unreg" => library! {
            fn f4(a: Val<TA>, b: Val<TB>) -> Val<TA> { Val(TA { tag: 5 * 100 + a.0.tag + 2 * b.0.tag }) }
            #[clone] type T = Val<TA>;
        },
        "dup" => library! {
            mod ma {
                fn f1() -> i32 { 100 }
                const f1: i32 = 200;
            }
        },
        // Mode "refuse" (RMacroShapes of spec/MCRegistration.tla): a base library, libraries that are refused
        // because one of their items has the name of an item of the base library, a third library
        "rbase" => library! {
            mod ma {
                fn f1() -> i32 { 100 }
                const C1: i32 = 200;
                mod n {
                    fn f2(a: Val<TA>) -> i32 { 3 * 100 + a.0.tag }
                    const C5: i32 = 1400;
                }
            }
            #[clone] type T = Val<TA>;
            fn f3(a: i32) -> i32 { 4 * 100 + a }
            const C2: i32 = 800;
            const C3: Val<TA> = Val(TA { tag: 900 });
            const KU: u32 = 7;
            impl Val<TA> {
                fn g1(a: Val<TA>) -> i32 { 6 * 100 + a.0.tag }
                fn g2() -> i32 { 700 }
                const C4: i32 = 1200;
            }
            use ma::{f1, n::C5};
        },
        "rthird" => library! {
            fn y1(a: i32) -> i32 { 48 * 100 + a }
            const Y2: i32 = 4900;
            mod my {
                const Y3: i32 = 5000;
            }
            impl Val<TA> {
                const Y4: i32 = 5100;
                fn gy(a: Val<TA>) -> i32 { 52 * 100 + a.0.tag }
            }
        },
        "rconst" => library! {
            fn x1() -> i32 { 4500 }
            const X2: i32 = 4600;
            const C2: i32 = 4000;
        },
        "rconstty" => library! {
            const C2: Val<TA> = Val(TA { tag: 4100 });
            fn x1() -> i32 { 4500 }
            const X2: i32 = 4600;
        },
        "rassoc" => library! {
            fn x1() -> i32 { 4500 }
            impl Val<TA> {
                const C4: i32 = 4000;
            }
            const X2: i32 = 4600;
        },
        "rfn" => library! {
            fn f3() -> i32 { 4200 }
            fn x1() -> i32 { 4500 }
            const X2: i32 = 4600;
        },
        s => panic!("harness: unknown macro shape {s}"),
    }
}

// `use` items inside library!: one compiled `library! { use <tree>; }` per use tree that TLC enumerates
// from the grammar of spec/MCRegistration.tla (generated by tools/gen_c18_usetrees.py)
include!("../tables/c18_usetrees.rs");

/// The module world the use trees refer to (UseWorld of spec/MCRegistration.tla): namesakes at every
/// level, every function returns its own tag.
fn use_world() -> Library {
    library! {
        mod a {
            fn d() -> i32 { 200 }
            fn e() -> i32 { 300 }
            mod b {
                fn c() -> i32 { 500 }
                fn d() -> i32 { 600 }
                mod q {
                    fn d() -> i32 { 1000 }
                    fn r() -> i32 { 1100 }
                }
            }
            mod p {
                fn d() -> i32 { 1200 }
                fn s() -> i32 { 1300 }
            }
        }
        fn z() -> i32 { 100 }
    }
}

/// world + `library! { use <tree>; }` for the tree with the given source text
fn use_tree_library(tree: &str) -> Library {
    let i = USE_TREES
        .iter()
        .position(|t| *t == tree)
        .unwrap_or_else(|| panic!("harness: use tree `{tree}` is not in tables/c18_usetrees.rs (run tools/gen_c18_usetrees.py)"));
    let mut lib = use_world();
    use_tree_lib(i).add_to_lib(&mut lib);
    lib
}

// ---------------------------------------------------------------- probing

fn dotted(path: &[String]) -> String {
    path.join(".")
}

struct Tys<'a>(&'a J);
impl Tys<'_> {
    /// script-level name of menu type `idx` (path of the registered Roto type)
    fn name(&self, idx: i64) -> String {
        if idx == 0 {
            return "i32".into();
        }
        match idx {
            5 => return "u32".into(),
            6 => return "bool".into(),
            7 => return "String".into(),
            _ => {}
        }
        if idx >= 100 {
            // the Roto type of the same structure, component order preserved
            let (k, a) = ty_args(idx);
            let a: Vec<String> = a.iter().map(|x| self.name(*x)).collect();
            return match k {
                1 => format!("Option[{}]", a[0]),
                2 => format!("List[{}]", a[0]),
                3 => format!("Result[{}, {}]", a[0], a[1]),
                4 => format!("Verdict[{}, {}]", a[0], a[1]),
                _ => panic!("harness: bad type code {idx}"),
            };
        }
        match self.0.get(idx.to_string()) {
            Some(p) => dotted(&strs(p)),
            None => format!("UNREGISTERED_{idx}"),
        }
    }
}

/// Source of probe function `fname` for probe `p`.
fn probe_source(fname: &str, p: &J, tys: &Tys) -> String {
    let kind = p["kind"].as_str().unwrap();
    let path = dotted(&strs(&p["path"]));
    match kind {
        "fn" | "method" => {
            let ps = ints(&p["ps"]);
            let r = p["r"].as_i64().unwrap();
            let params: Vec<String> = ps.iter().enumerate().map(|(i, t)| format!("a{i}: {}", tys.name(*t))).collect();
            let args: Vec<String> = (0..ps.len()).map(|i| format!("a{i}")).collect();
            let call = if kind == "method" {
                // path = <receiver type path>.<name>; call with method syntax on the first argument
                let name = strs(&p["path"]).last().unwrap().clone();
                format!("a0.{}({})", name, args[1..].join(", "))
            } else {
                format!("{}({})", path, args.join(", "))
            };
            format!("fn {fname}({}) -> {} {{ {call} }}\n", params.join(", "), tys.name(r))
        }
        "const" => {
            let ty = p["ty"].as_i64().unwrap();
            format!("fn {fname}() -> {} {{ {path} }}\n", tys.name(ty))
        }
        "type" => {
            format!("fn {fname}(a0: {path}) -> {path} {{ a0 }}\n")
        }
        // take the result apart: one function per component, typed with the component the Roto type must have
        "match" => {
            let r = p["r"].as_i64().unwrap();
            let (k, a) = ty_args(r);
            let (va, vb) = match k {
                1 => ("Some(v) => Option.Some(v), None => Option.None", String::new()),
                3 => ("Ok(v) => Option.Some(v), Err(e) => Option.None", "Ok(v) => Option.None, Err(e) => Option.Some(e)".to_string()),
                4 => ("Accept(v) => Option.Some(v), Reject(e) => Option.None", "Accept(v) => Option.None, Reject(e) => Option.Some(e)".to_string()),
                _ => panic!("harness: match probe on type {r}"),
            };
            let mut src = format!("fn {fname}_a(sel: i32) -> Option[{}] {{ match {path}(sel) {{ {va} }} }}\n", tys.name(a[0]));
            if k != 1 {
                src.push_str(&format!("fn {fname}_b(sel: i32) -> Option[{}] {{ match {path}(sel) {{ {vb} }} }}\n", tys.name(a[1])));
            }
            src
        }
        // build the argument from its components with the constructors of the Roto type
        "cons" => {
            let t = ints(&p["ps"])[0];
            let (k, a) = ty_args(t);
            match k {
                1 => format!(
                    "fn {fname}(sel: i32, a: {}) -> i32 {{ if sel == 0 {{ {path}(Option.Some(a)) }} else {{ {path}(Option.None) }} }}\n",
                    tys.name(a[0])
                ),
                3 => format!(
                    "fn {fname}(sel: i32, a: {}, b: {}) -> i32 {{ if sel == 0 {{ {path}(Result.Ok(a)) }} else {{ {path}(Result.Err(b)) }} }}\n",
                    tys.name(a[0]),
                    tys.name(a[1])
                ),
                4 => format!(
                    "fn {fname}(sel: i32, a: {}, b: {}) -> i32 {{ if sel == 0 {{ {path}(Verdict.Accept(a)) }} else {{ {path}(Verdict.Reject(b)) }} }}\n",
                    tys.name(a[0]),
                    tys.name(a[1])
                ),
                _ => panic!("harness: cons probe on type {t}"),
            }
        }
        // free-form body returning i32 (used for hand-written reproductions only)
        "raw" => format!("fn {fname}() -> i32 {{ {} }}\n", p["body"].as_str().unwrap()),
        k => panic!("harness: unknown probe kind {k}"),
    }
}

fn call0<R: Tv>(pkg: &mut roto::Package<NoCtx>, f: &str) -> Result<i32, String> {
    let f = pkg.get_function::<fn() -> R>(f).map_err(|e| e.to_string())?;
    Ok(f.call().get())
}
fn call1<P0: Tv, R: Tv>(pkg: &mut roto::Package<NoCtx>, f: &str) -> Result<i32, String> {
    let f = pkg.get_function::<fn(P0) -> R>(f).map_err(|e| e.to_string())?;
    Ok(f.call(P0::make(argval(0))).get())
}
fn call2<P0: Tv, P1: Tv, R: Tv>(pkg: &mut roto::Package<NoCtx>, f: &str) -> Result<i32, String> {
    let f = pkg.get_function::<fn(P0, P1) -> R>(f).map_err(|e| e.to_string())?;
    Ok(f.call(P0::make(argval(0)), P1::make(argval(1))).get())
}


fn split_tagged(vs: &[i32]) -> J {
    // tag * 1000 + observation, same tag for every selector
    let tag = vs[0] / 1000;
    if vs.iter().all(|v| v / 1000 == tag) {
        json!({"st": "ok", "tag": tag, "obs": vs.iter().map(|v| v % 1000).collect::<Vec<i32>>()})
    } else {
        json!({"st": "ok", "tag": -2, "raw": vs})
    }
}
fn sig_ret<S: Cv>(pkg: &mut roto::Package<NoCtx>, f: &str) -> Result<J, String> {
    let f = pkg.get_function::<fn(i32) -> S>(f).map_err(|e| e.to_string())?;
    let obs: Vec<i32> = (0..4).map(|sel| f.call(sel).code()).collect();
    Ok(json!({"st": "ok", "tag": 0, "obs": obs}))
}
fn sig_par<S: Cv>(pkg: &mut roto::Package<NoCtx>, f: &str) -> Result<J, String> {
    let f = pkg.get_function::<fn(S) -> i32>(f).map_err(|e| e.to_string())?;
    let vs: Vec<i32> = (0..4).map(|sel| f.call(S::canon(sel))).collect();
    Ok(split_tagged(&vs))
}
fn sig_meth<S: Cv>(pkg: &mut roto::Package<NoCtx>, f: &str) -> Result<J, String> {
    let f = pkg.get_function::<fn(Val<TA>, S) -> i32>(f).map_err(|e| e.to_string())?;
    let vs: Vec<i32> = (0..4).map(|sel| f.call(Val(TA { tag: 1 }), S::canon(sel))).collect();
    Ok(split_tagged(&vs))
}
fn sig_const<S: Cv>(pkg: &mut roto::Package<NoCtx>, f: &str) -> Result<J, String> {
    let f = pkg.get_function::<fn() -> S>(f).map_err(|e| e.to_string())?;
    Ok(json!({"st": "ok", "tag": 0, "obs": [f.call().code()]}))
}
fn sig_match<S: Cv>(pkg: &mut roto::Package<NoCtx>, f: &str, two: bool) -> Result<J, String> {
    let fa = pkg.get_function::<fn(i32) -> Option<S::A>>(&format!("{f}_a")).map_err(|e| e.to_string())?;
    let mut obs = vec![];
    if two {
        let fb = pkg.get_function::<fn(i32) -> Option<S::B>>(&format!("{f}_b")).map_err(|e| e.to_string())?;
        for sel in 0..4 {
            obs.push(match (fa.call(sel), fb.call(sel)) {
                (Some(a), None) => S::W + a.code(),
                (None, Some(b)) => 2 * S::W + b.code(),
                _ => -2,
            });
        }
    } else {
        for sel in 0..4 {
            obs.push(match fa.call(sel) {
                Some(a) => S::W + a.code(),
                None => 2 * S::W,
            });
        }
    }
    Ok(json!({"st": "ok", "tag": 0, "obs": obs}))
}
fn sig_cons<S: Cv>(pkg: &mut roto::Package<NoCtx>, f: &str, two: bool) -> Result<J, String> {
    let vs: Vec<i32> = if two {
        let f = pkg.get_function::<fn(i32, S::A, S::B) -> i32>(f).map_err(|e| e.to_string())?;
        (0..4).map(|sel| f.call(sel % 2, <S::A>::canon(sel / 2), <S::B>::canon(sel / 2))).collect()
    } else {
        let f = pkg.get_function::<fn(i32, S::A) -> i32>(f).map_err(|e| e.to_string())?;
        (0..4).map(|sel| f.call(sel % 2, <S::A>::canon(sel / 2))).collect()
    };
    Ok(split_tagged(&vs))
}

/// Probes of items with a table type in their signature.
fn call_sig_probe(pkg: &mut roto::Package<NoCtx>, fname: &str, p: &J) -> J {
    let kind = p["kind"].as_str().unwrap();
    let ps = ints(&p["ps"]);
    let r = p["r"].as_i64().unwrap_or(0);
    let got: Result<J, String> = match (kind, &ps[..], r) {
        ("const", _, _) => with_sig!(p["ty"].as_i64().unwrap(), S, sig_const::<S>(pkg, fname)),
        ("fn" | "method", [0], r) => with_sig!(r, S, sig_ret::<S>(pkg, fname)),
        ("fn", [t], 0) => with_sig!(*t, S, sig_par::<S>(pkg, fname)),
        ("fn" | "method", [1, t], 0) => with_sig!(*t, S, sig_meth::<S>(pkg, fname)),
        ("match", [0], r) => with_sig!(r, S, sig_match::<S>(pkg, fname, ty_args(r).0 != 1)),
        ("cons", [t], 0) => with_sig!(*t, S, sig_cons::<S>(pkg, fname, ty_args(*t).0 != 1)),
        _ => panic!("harness: probe {p} with a table type is not one of the supported shapes"),
    };
    match got {
        Ok(j) => j,
        Err(e) => json!({"st": "sigmismatch", "msg": first_line(&e)}),
    }
}

fn has_table_type(p: &J) -> bool {
    ints(&p["ps"]).iter().any(|t| *t >= 5) || p["r"].as_i64().unwrap_or(0) >= 5 || (p["kind"] == "const" && p["ty"].as_i64().unwrap_or(0) >= 5)
}

/// Call probe function `fname` of a compiled package under the Rust signature the probe declares.
fn call_probe(pkg: &mut roto::Package<NoCtx>, fname: &str, p: &J) -> J {
    if has_table_type(p) {
        return call_sig_probe(pkg, fname, p);
    }
    let kind = p["kind"].as_str().unwrap();
    let (ps, r): (Vec<i64>, i64) = match kind {
        "fn" | "method" => (ints(&p["ps"]), p["r"].as_i64().unwrap()),
        "const" => (vec![], p["ty"].as_i64().unwrap()),
        "raw" => (vec![], 0),
        "type" => {
            let t = p["ty"].as_i64().unwrap();
            (vec![t], t)
        }
        _ => unreachable!(),
    };
    let got = match ps.len() {
        0 => with_ty!(r, R, call0::<R>(pkg, fname)),
        1 => with_ty!(r, R, with_ty!(ps[0], P0, call1::<P0, R>(pkg, fname))),
        2 => with_ty!(r, R, with_ty!(ps[0], P0, with_ty!(ps[1], P1, call2::<P0, P1, R>(pkg, fname)))),
        _ => unreachable!(),
    };
    match got {
        Err(e) => json!({"st": "sigmismatch", "msg": first_line(&e)}),
        Ok(v) => {
            if kind == "type" {
                // identity on a value of the type: the tag reported is the menu index of the Rust type
                if v == argval(0) {
                    json!({"st": "ok", "tag": p["ty"].as_i64().unwrap()})
                } else {
                    json!({"st": "ok", "tag": -2, "raw": v})
                }
            } else {
                let extra = expected_ret(0, ps.len());
                if v >= extra && (v - extra) % 100 == 0 {
                    json!({"st": "ok", "tag": (v - extra) / 100})
                } else {
                    json!({"st": "ok", "tag": -2, "raw": v})
                }
            }
        }
    }
}

fn first_line(s: &str) -> String {
    let t: String = s.lines().filter(|l| !l.trim().is_empty()).take(2).collect::<Vec<_>>().join(" | ");
    t.chars().take(300).collect()
}

static LAST_PANIC_LOC: Mutex<String> = Mutex::new(String::new());

fn install_hook() {
    std::panic::set_hook(Box::new(|info| {
        let loc = info.location().map(|l| format!("{}:{}", l.file(), l.line())).unwrap_or_default();
        if let Ok(mut g) = LAST_PANIC_LOC.lock() {
            *g = loc;
        }
    }));
}

fn guarded<T>(f: impl FnOnce() -> T) -> Result<T, J> {
    match std::panic::catch_unwind(std::panic::AssertUnwindSafe(f)) {
        Ok(v) => Ok(v),
        Err(e) => {
            let loc = LAST_PANIC_LOC.lock().map(|g| g.clone()).unwrap_or_default();
            // path relative to the roto crate, wherever it is checked out
            let loc = loc.rfind("/src/").map(|i| loc[i + 1..].to_string()).unwrap_or(loc);
            Err(json!({"st": "panic", "msg": first_line(&rvh::util::panic_message(&e)), "loc": loc}))
        }
    }
}

fn compile(rt: &Runtime<NoCtx>, src: &str) -> Result<Result<roto::Package<NoCtx>, String>, J> {
    guarded(|| {
        FileTree::test_file("probe.roto", src, 0).compile(rt).map_err(|e| {
            let mut buf = String::new();
            let _ = e.write(&mut buf, false);
            buf
        })
    })
}

/// Run all probes against the runtime: first all positive ones in one script;
/// whatever cannot be settled that way is compiled separately.
fn run_probes(rt: &Runtime<NoCtx>, probes: &[J], tys: &J) -> Vec<J> {
    let tys = Tys(tys);
    let mut out: Vec<Option<J>> = vec![None; probes.len()];
    let pos: Vec<usize> = (0..probes.len()).filter(|i| probes[*i]["neg"].as_bool() != Some(true)).collect();
    if pos.len() > 1 {
        let mut src = String::new();
        for i in &pos {
            src.push_str(&probe_source(&format!("p{i}"), &probes[*i], &tys));
        }
        if let Ok(Ok(mut pkg)) = compile(rt, &src) {
            for i in &pos {
                let r = guarded(|| call_probe(&mut pkg, &format!("p{i}"), &probes[*i])).unwrap_or_else(|e| e);
                out[*i] = Some(r);
            }
        }
    }
    for i in 0..probes.len() {
        if out[i].is_some() {
            continue;
        }
        let src = probe_source("p", &probes[i], &tys);
        let r = match compile(rt, &src) {
            Err(p) => p,
            Ok(Err(msg)) => json!({"st": "nocompile", "msg": first_line(&msg)}),
            Ok(Ok(mut pkg)) => guarded(|| call_probe(&mut pkg, "p", &probes[i])).unwrap_or_else(|e| e),
        };
        out[i] = Some(r);
    }
    out.into_iter().map(|x| x.unwrap()).collect()
}

/// One `Runtime::add` (library built with the public constructors or `library!`).
/// With `from_lib` the runtime is created by `Runtime::from_lib(lib)` instead of `new()` + `add(lib)`.
fn do_add(rt: &mut Runtime<NoCtx>, add: &J, from_lib: bool) -> J {
    let built: Result<RegRes<Library>, J> = guarded(|| match add.get("macro").and_then(|m| m.as_str()) {
        Some("usetree") => Ok(use_tree_library(add["tree"].as_str().unwrap())),
        Some(shape) => Ok(macro_lib(shape)),
        None => build_lib(&add["lib"]),
    });
    let lib = match built {
        Err(mut p) => {
            p["out"] = json!("panic");
            p["stage"] = json!("construct");
            return p;
        }
        Ok(Err(e)) => return json!({"out": "err", "stage": "construct", "msg": first_line(&e.to_string())}),
        Ok(Ok(l)) => l,
    };
    let r = if from_lib {
        guarded(|| Runtime::from_lib(lib).map(|new_rt| *rt = new_rt))
    } else {
        guarded(|| rt.add(lib))
    };
    match r {
        Err(mut p) => {
            p["out"] = json!("panic");
            p["stage"] = json!("add");
            p
        }
        Ok(Err(e)) => json!({"out": "err", "stage": "add", "msg": first_line(&e.to_string())}),
        Ok(Ok(())) => json!({"out": "ok"}),
    }
}

fn replay_case(case: &J, prog: &Progress) -> J {
    let mut rt = Runtime::new();
    let mut res = vec![];
    for (k, add) in case["adds"].as_array().unwrap().iter().enumerate() {
        prog.step(k as i64);
        let mut r = do_add(&mut rt, add, k == 0 && case["from_lib"].as_bool() == Some(true));
        let ok = r["out"] == "ok";
        // `after`: the specification says this add is refused and what must still be reachable afterwards
        // (the items of the earlier adds): the probes run against the runtime that refused the library,
        // and the case goes on with the next add
        let refused = r["out"] == "err" && r["stage"] == "add" && add["after"].as_bool() == Some(true);
        if ok || refused {
            let probes = add["probes"].as_array().cloned().unwrap_or_default();
            r["probes"] = J::Array(run_probes(&rt, &probes, &add["tys"]));
        }
        res.push(r);
        if !ok && !refused {
            break;
        }
    }
    json!({"adds": res})
}


// ---------------------------------------------------------------- record mode (I->S)

/// splitmix64
struct Rng(u64);
impl Rng {
    fn next(&mut self) -> u64 {
        self.0 = self.0.wrapping_add(0x9E3779B97F4A7C15);
        let mut z = self.0;
        z = (z ^ (z >> 30)).wrapping_mul(0xBF58476D1CE4E5B9);
        z = (z ^ (z >> 27)).wrapping_mul(0x94D049BB133111EB);
        z ^ (z >> 31)
    }
    fn below(&mut self, n: usize) -> usize {
        (self.next() % (n as u64)) as usize
    }
    fn chance(&mut self, percent: u64) -> bool {
        self.next() % 100 < percent
    }
    fn pick<'a, T>(&mut self, xs: &'a [T]) -> &'a T {
        &xs[self.below(xs.len())]
    }
}

const BAD_NAMES: &[(&str, &str)] = &[
    ("accept", "keyword"), ("import", "keyword"), ("fn", "keyword"), ("std", "keyword"), ("while", "keyword"),
    ("true", "boollit"), ("1a", "digit"), ("9", "digit"), ("a.b", "dot"), ("", "empty"), ("a b", "space"),
    ("a-b", "hyphen"), ("f'", "punct"), ("x+y", "punct"), ("f1 ", "space"), ("g1\t", "space"), (" k1", "space"),
    ("e1\n", "space"), ("h1 // c", "comment"), ("d1 //", "comment"),
];
const PRIMS: &[&str] = &["String", "u32", "List"];
const NONASCII: &[&str] = &["é", "東京", "ñandú", "Ωmega", "x_é"];

/// What the generator remembers about one declared item (its own bookkeeping, not an oracle).
#[derive(Clone)]
struct Known {
    path: Vec<String>,
    kind: &'static str, // mod | type | fn | method | const
    ps: Vec<i64>,
    r: i64,
    ty: i64,
}

struct World {
    counter: usize,
    type_path: std::collections::BTreeMap<i64, Vec<String>>, // registered Rust types (as the generator believes)
    known: Vec<Known>,
    aliases: Vec<(String, Known)>,
}

struct Gen<'a> {
    rng: &'a mut Rng,
    w: &'a mut World,
    defects: bool,
    avail: Vec<i64>,      // Rust types signatures may mention
    to_place: Vec<i64>,   // new Rust types still to be declared by this library
    new_known: Vec<Known>,
    new_types: std::collections::BTreeMap<i64, Vec<String>>,
    impls: Vec<(i64, Vec<J>)>, // impl blocks are attached after the tree is built
}

fn item(k: &str, name: &str, cls: &str) -> J {
    json!({"k": k, "name": name, "cls": cls, "items": [], "ty": 0, "mov": "", "ps": [], "r": 0, "tag": 0, "paths": []})
}

impl Gen<'_> {
    fn fresh(&mut self, prefix: &str, siblings: &[String]) -> (String, String) {
        self.w.counter += 1;
        let c = self.w.counter;
        if self.defects && self.rng.chance(4) {
            let (n, cls) = *self.rng.pick(BAD_NAMES);
            return (n.to_string(), cls.to_string());
        }
        if self.defects && self.rng.chance(3) && !siblings.is_empty() {
            let n = self.rng.pick(siblings).clone();
            // (a host type named like a primitive is the known finding K-C18-type-named-like-primitive,
            // kept visible by the TLC-generated cases; here it would only mask the rest of the run)
            if !(prefix == "T" && PRIMS.contains(&n.as_str())) {
                let cls = if n.is_ascii() { "ascii" } else { "nonascii" };
                return (n, cls.into());
            }
        }
        if self.defects && self.rng.chance(1) {
            let pool: &[&str] = if prefix == "T" { &["Option", "Verdict", "Result"] } else { &["Option", "String", "u32", "Verdict", "List"] };
            return (self.rng.pick(pool).to_string(), "ascii".into());
        }
        if self.rng.chance(12) {
            return (format!("{}{}", self.rng.pick(NONASCII), c), "nonascii".into());
        }
        if self.rng.chance(5) {
            return (format!("_{prefix}{c}"), "ascii".into());
        }
        (format!("{prefix}{c}"), "ascii".into())
    }

    fn sig_ty(&mut self) -> i64 {
        if self.defects && self.rng.chance(2) {
            return 1 + self.rng.below(4) as i64; // possibly unregistered
        }
        if self.avail.is_empty() || self.rng.chance(45) { 0 } else { *self.rng.pick(&self.avail.clone()) }
    }

    fn function(&mut self, scope: &[String], siblings: &mut Vec<String>, self_ty: Option<i64>) -> J {
        let (name, cls) = self.fresh(if self_ty.is_some() { "g" } else { "f" }, siblings);
        let mut ps = vec![];
        let mut r = 0;
        if self.rng.chance(14) {
            // a signature over a table type (u32 / bool / String / Option / List / Result / Verdict ..): three shapes
            let ok: Vec<i64> = SIG_CODES
                .iter()
                .cloned()
                .filter(|c| (self.defects && self.rng.chance(5)) || !c.to_string().contains('1') || self.avail.contains(&1))
                .collect();
            let t = *self.rng.pick(&ok);
            match self.rng.below(3) {
                0 => {
                    ps.push(0);
                    r = t;
                }
                1 if self_ty == Some(1) => {
                    ps.push(1);
                    ps.push(t);
                }
                _ => ps.push(t),
            }
        } else {
            if let Some(t) = self_ty {
                if self.rng.chance(60) {
                    ps.push(t);
                }
            }
            while ps.len() < 2 && self.rng.chance(50) {
                let t = self.sig_ty();
                ps.push(t);
            }
            r = self.sig_ty();
        }
        self.w.counter += 1;
        let tag = (self.w.counter % 9000) as i64 + 1;
        let mut it = item("fn", &name, &cls);
        it["ps"] = json!(ps);
        it["r"] = json!(r);
        it["tag"] = json!(tag);
        let mut path = scope.to_vec();
        path.push(name.clone());
        siblings.push(name);
        self.new_known.push(Known { path, kind: if self_ty.is_some() { "method" } else { "fn" }, ps, r, ty: self_ty.unwrap_or(0) });
        it
    }

    fn constant(&mut self, scope: &[String], siblings: &mut Vec<String>) -> J {
        let (name, cls) = self.fresh("K", siblings);
        let ty = if self.rng.chance(14) { *self.rng.pick(SIG_CODES) } else { self.sig_ty() };
        self.w.counter += 1;
        let tag = (self.w.counter % 9000) as i64 + 1;
        let mut it = item("const", &name, &cls);
        it["ty"] = json!(ty);
        it["tag"] = json!(tag);
        let mut path = scope.to_vec();
        path.push(name.clone());
        siblings.push(name);
        self.new_known.push(Known { path, kind: "const", ps: vec![], r: 0, ty });
        it
    }

    fn items(&mut self, scope: &[String], depth: usize, budget: &mut i32) -> Vec<J> {
        let mut out = vec![];
        let mut siblings: Vec<String> = vec![];
        let n = 1 + self.rng.below(if depth == 0 { 5 } else { 3 });
        for _ in 0..n {
            if *budget <= 0 {
                break;
            }
            *budget -= 1;
            let roll = self.rng.below(100);
            if roll < 25 && depth < 4 {
                let (name, cls) = self.fresh("m", &siblings);
                let mut p = scope.to_vec();
                p.push(name.clone());
                let kids = self.items(&p, depth + 1, budget);
                let mut it = item("mod", &name, &cls);
                it["items"] = J::Array(kids);
                siblings.push(name);
                self.new_known.push(Known { path: p, kind: "mod", ps: vec![], r: 0, ty: 0 });
                out.push(it);
            } else if roll < 40 && (!self.to_place.is_empty() || (self.defects && self.rng.chance(10))) {
                let mut ty = if self.to_place.is_empty() { 1 + self.rng.below(4) as i64 } else { self.to_place.remove(0) };
                let (mut name, mut cls) = self.fresh("T", &siblings);
                // sometimes: the identifier (and usually the Rust type) of a type that is already
                // registered somewhere else - a second registration of one Rust type in another scope
                let olds: Vec<Known> =
                    self.w.known.iter().chain(self.new_known.iter()).filter(|k| k.kind == "type").cloned().collect();
                if self.defects && !olds.is_empty() && self.rng.chance(25) {
                    let old = self.rng.pick(&olds).clone();
                    let n = old.path.last().unwrap().clone();
                    if !PRIMS.contains(&n.as_str()) {
                        if self.rng.chance(70) {
                            if ty != old.ty && !self.to_place.contains(&ty) && !self.new_types.contains_key(&ty) {
                                self.to_place.push(ty);
                            }
                            ty = old.ty;
                        }
                        cls = if n.is_ascii() { "ascii".into() } else { "nonascii".into() };
                        name = n;
                    }
                }
                let mut it = item("type", &name, &cls);
                it["ty"] = json!(ty);
                it["mov"] = json!(if self.rng.chance(50) { "copy" } else { "clone" });
                let mut p = scope.to_vec();
                p.push(name.clone());
                siblings.push(name);
                self.new_types.entry(ty).or_insert(p.clone());
                self.new_known.push(Known { path: p, kind: "type", ps: vec![], r: 0, ty });
                out.push(it);
            } else if roll < 70 {
                out.push(self.function(scope, &mut siblings, None));
            } else if roll < 85 {
                out.push(self.constant(scope, &mut siblings));
            } else {
                // an impl block: its members are generated once all type paths of this library are known
                let ty = self.sig_ty();
                let mut it = item("impl", "", "ascii");
                it["ty"] = json!(ty);
                it["tag"] = json!(-1 - (self.impls.len() as i64)); // marker, replaced below
                self.impls.push((ty, vec![]));
                out.push(it);
            }
        }
        out
    }

    fn fill_impls(&mut self, items: &mut Vec<J>) {
        for it in items.iter_mut() {
            match it["k"].as_str().unwrap() {
                "mod" => {
                    let mut kids = it["items"].as_array().cloned().unwrap();
                    self.fill_impls(&mut kids);
                    it["items"] = J::Array(kids);
                }
                "impl" => {
                    let ty = it["ty"].as_i64().unwrap();
                    it["tag"] = json!(0);
                    let scope: Vec<String> = if ty == 0 {
                        vec!["i32".into()]
                    } else if let Some(p) = self.new_types.get(&ty).or(self.w.type_path.get(&ty)) {
                        p.clone()
                    } else {
                        vec![format!("?{ty}")]
                    };
                    let mut sib: Vec<String> = self
                        .w
                        .known
                        .iter()
                        .chain(self.new_known.iter())
                        .filter(|k| k.path.len() == scope.len() + 1 && k.path[..scope.len()] == scope[..])
                        .map(|k| k.path.last().unwrap().clone())
                        .collect();
                    let mut kids = vec![];
                    for _ in 0..(1 + self.rng.below(3)) {
                        if self.rng.chance(80) {
                            kids.push(self.function(&scope, &mut sib, Some(ty)));
                        } else {
                            kids.push(self.constant(&scope, &mut sib));
                        }
                    }
                    it["items"] = J::Array(kids);
                }
                _ => {}
            }
        }
    }

    /// insert `use` items naming declared things (rarely: missing / empty paths)
    fn add_uses(&mut self, items: &mut Vec<J>, depth: usize, uses: &mut Vec<(bool, Vec<String>)>) {
        for it in items.iter_mut() {
            if it["k"] == "mod" && self.rng.chance(25) {
                let mut kids = it["items"].as_array().cloned().unwrap();
                self.add_uses(&mut kids, depth + 1, uses);
                it["items"] = J::Array(kids);
            }
        }
        let n = if depth == 0 { self.rng.below(3) } else { self.rng.below(2) };
        for _ in 0..n {
            let pool: Vec<Known> = self.w.known.iter().chain(self.new_known.iter()).filter(|k| k.path.len() >= 2).cloned().collect();
            if pool.is_empty() {
                break;
            }
            let mut paths = vec![];
            for _ in 0..(1 + self.rng.below(2)) {
                let k = self.rng.pick(&pool).clone();
                let mut p = k.path.clone();
                if self.defects && self.rng.chance(6) {
                    let i = self.rng.below(p.len());
                    p[i] = "nope".into();
                } else if self.defects && self.rng.chance(2) {
                    p.clear();
                }
                uses.push((depth == 0, p.clone()));
                paths.push(p);
            }
            let mut it = item("use", "", "ascii");
            it["paths"] = json!(paths);
            let at = self.rng.below(items.len() + 1);
            items.insert(at, it);
        }
    }
}

fn gen_library(rng: &mut Rng, w: &mut World, defects: bool) -> (J, Vec<Known>, std::collections::BTreeMap<i64, Vec<String>>, Vec<(bool, Vec<String>)>) {
    let unreg: Vec<i64> = (1..5).filter(|t| !w.type_path.contains_key(t)).collect();
    let mut to_place = vec![];
    for t in &unreg {
        if rng.chance(45) {
            to_place.push(*t);
        }
    }
    let mut avail: Vec<i64> = w.type_path.keys().cloned().collect();
    avail.extend(to_place.iter().cloned());
    let mut g = Gen { rng, w, defects, avail, to_place, new_known: vec![], new_types: Default::default(), impls: vec![] };
    let mut budget = 4 + g.rng.below(9) as i32;
    let mut items = g.items(&[], 0, &mut budget);
    // types that did not find a place are declared at the root (or, rarely, left out: unregistered type)
    while let Some(ty) = g.to_place.pop() {
        if g.defects && g.rng.chance(15) {
            continue;
        }
        let sib: Vec<String> = vec![];
        let (name, cls) = g.fresh("T", &sib);
        let mut it = item("type", &name, &cls);
        it["ty"] = json!(ty);
        it["mov"] = json!(if g.rng.chance(50) { "copy" } else { "clone" });
        g.new_types.entry(ty).or_insert(vec![name.clone()]);
        g.new_known.push(Known { path: vec![name], kind: "type", ps: vec![], r: 0, ty });
        let at = g.rng.below(items.len() + 1);
        items.insert(at, it);
    }
    g.fill_impls(&mut items);
    let mut uses = vec![];
    g.add_uses(&mut items, 0, &mut uses);
    let (nk, nt) = (g.new_known, g.new_types);
    (J::Array(items), nk, nt, uses)
}

fn probe_of(k: &Known, path: &[String]) -> Vec<J> {
    match k.kind {
        "fn" => {
            let mut v = vec![json!({"kind": "fn", "path": path, "ps": k.ps, "r": k.r})];
            if k.ps == [0] && k.r >= 100 && [1, 3, 4].contains(&ty_args(k.r).0) {
                v.push(json!({"kind": "match", "path": path, "ps": k.ps, "r": k.r}));
            }
            if k.r == 0 && k.ps.len() == 1 && k.ps[0] >= 100 && [1, 3, 4].contains(&ty_args(k.ps[0]).0) {
                v.push(json!({"kind": "cons", "path": path, "ps": k.ps, "r": k.r}));
            }
            v
        }
        "method" => {
            let mut v = vec![json!({"kind": "fn", "path": path, "ps": k.ps, "r": k.r})];
            if k.ps.first() == Some(&k.ty) {
                v.push(json!({"kind": "method", "path": path, "ps": k.ps, "r": k.r}));
            }
            v
        }
        "const" => vec![json!({"kind": "const", "path": path, "ty": k.ty})],
        "type" => vec![json!({"kind": "type", "path": path, "ty": k.ty})],
        _ => vec![],
    }
}

/// One recorded run: a fresh runtime, 1..3 adds, probes after every successful add and - of the items
/// registered before - after every refused add.
fn record_case(case: &J, prog: &Progress) -> J {
    let mut rng = Rng(case["seed"].as_u64().unwrap());
    let defect_rate = case["defect_percent"].as_u64().unwrap_or(35);
    let mut events = vec![json!({"op": "new"})];
    let mut rt = Runtime::new();
    let mut w = World { counter: 0, type_path: Default::default(), known: vec![], aliases: vec![] };
    let nadds = 1 + rng.below(3);
    for k in 0..nadds {
        prog.step(k as i64);
        let defects = rng.chance(defect_rate);
        let (lib, new_known, new_types, uses) = gen_library(&mut rng, &mut w, defects);
        let r = do_add(&mut rt, &json!({"lib": lib}), k == 0 && rng.chance(30));
        let out = r["out"].as_str().unwrap().to_string();
        let mut ev = json!({"op": "add", "lib": lib, "out": out});
        if out == "panic" {
            ev["panic"] = r.clone();
        }
        events.push(ev);
        if out == "panic" {
            break;
        }
        if out == "ok" {
            w.known.extend(new_known);
            w.type_path.extend(new_types);
            for (top, p) in uses {
                if !top || p.is_empty() {
                    continue;
                }
                if let Some(k) = w.known.iter().find(|k| k.path == p) {
                    w.aliases.push((p.last().unwrap().clone(), k.clone()));
                }
            }
        } else if w.known.is_empty() {
            // refused, and nothing was registered before: nothing to look at
            break;
        }
        // (after a refused add: the items of the earlier adds are probed again - they must be unchanged -
        // and the run goes on with the next library)
        // probes: every known item at its declaration path, through the top-level aliases,
        // and at perturbed paths / with perturbed signatures
        let mut batch: Vec<J> = vec![];
        let mut single: Vec<J> = vec![];
        for kn in &w.known {
            batch.extend(probe_of(kn, &kn.path));
        }
        for (alias, target) in &w.aliases {
            if target.kind == "mod" || target.kind == "type" {
                for kn in w.known.iter().filter(|k| k.path.len() == target.path.len() + 1 && k.path.starts_with(&target.path)) {
                    let mut p = vec![alias.clone()];
                    p.extend(kn.path[target.path.len()..].iter().cloned());
                    single.extend(probe_of(kn, &p));
                }
            }
            single.extend(probe_of(target, &[alias.clone()]));
        }
        let deep: Vec<Known> = w.known.iter().filter(|k| k.path.len() >= 2).cloned().collect();
        for _ in 0..6 {
            if deep.is_empty() {
                break;
            }
            let kn = rng.pick(&deep).clone();
            let mut p = kn.path.clone();
            match rng.below(3) {
                0 => {
                    p = vec![p.last().unwrap().clone()];
                }
                1 => {
                    let i = rng.below(p.len() - 1);
                    p.remove(i);
                }
                _ => {
                    let other = rng.pick(&w.known).clone();
                    let n = p.len();
                    p[n - 1] = other.path.last().unwrap().clone();
                }
            }
            // (method-call syntax does not go through the path: only path-based probes are perturbed)
            single.extend(probe_of(&kn, &p).into_iter().filter(|q| q["kind"] != "method"));
        }
        for _ in 0..3 {
            if w.known.is_empty() {
                break;
            }
            let kn = rng.pick(&w.known).clone();
            let table = kn.r >= 5 || kn.ps.iter().any(|t| *t >= 5) || (kn.kind == "const" && kn.ty >= 5);
            if table {
                continue; // table types only come in fixed shapes
            }
            if kn.kind == "fn" || kn.kind == "method" {
                let mut q = kn.clone();
                if rng.chance(50) {
                    q.r = (q.r + 1) % 5;
                } else if q.ps.len() < 2 {
                    q.ps.push(0);
                } else {
                    q.ps.pop();
                }
                single.push(json!({"kind": "fn", "path": q.path, "ps": q.ps, "r": q.r}));
            } else if kn.kind == "const" {
                single.push(json!({"kind": "const", "path": kn.path, "ty": (kn.ty + 1) % 5}));
            }
        }
        let tys: serde_json::Map<String, J> = w.type_path.iter().map(|(t, p)| (t.to_string(), json!(p))).collect();
        let tys = J::Object(tys);
        let nb = batch.len();
        let mut all = batch;
        for q in single.iter_mut() {
            q["neg"] = json!(true); // compiled on its own
        }
        all.extend(single);
        let res = run_probes(&rt, &all, &tys);
        for (i, (q, r)) in all.iter().zip(res.iter()).enumerate() {
            let mut q = q.clone();
            if let Some(o) = q.as_object_mut() {
                o.remove("neg");
            }
            let tag = match r["st"].as_str().unwrap() {
                "ok" => r["tag"].as_i64().unwrap(),
                "nocompile" | "sigmismatch" => -1,
                _ => -9,
            };
            let obs = if r["st"] == "ok" { r.get("obs").cloned().unwrap_or(json!([])) } else { json!([]) };
            let mut e = json!({"op": "probe", "q": q, "res": tag, "obs": obs, "own": i >= nb});
            if tag < -1 {
                e["detail"] = r.clone();
            }
            events.push(e);
        }
    }
    json!({"events": events})
}

fn main() {
    let args = parse_args();
    let mode = args.extra.first().cloned().unwrap_or_else(|| "replay".into());
    let mut hooked = false;
    run_batch(&args, |case: &J, prog: &Progress| -> J {
        if !hooked {
            install_hook();
            hooked = true;
        }
        match mode.as_str() {
            "replay" => replay_case(case, prog),
            "record" => record_case(case, prog),
            m => panic!("harness: unknown mode {m}"),
        }
    });
}
