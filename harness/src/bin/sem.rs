//! Generic script runner for the RotoSem-based checks (C01, C02, C03, C08, C20).
//!
//! case: {"src": <roto source>, "calls": [{"fn": "main", "ret": <scalar type>, "ins": [{"ty","v"}..]}],
//!        "eval": bool (also run the LIR evaluator on the same lowered IR, C20)}
//! result: {"compile": "ok" | "err", "kinds": [..], "msg": .., "calls": [{"res", "log", "own", "live", "eval"?}]}
//!
//! The scripts talk to the host only through the functions registered below
//! (emit_<ty>(tag, v) -> v, in_<ty>(k), tick(tag), mk(tag) -> Tr, use_tr(t)), each of
//! which appends to an ordered log.  Values are reported in the representation of
//! the TLA+ specification (integers as little-endian byte arrays, floats as exact
//! dyadic records, strings as code point arrays): pure encoding, no arithmetic.
use std::cell::RefCell;
use std::sync::atomic::Ordering;

use roto::{FileTree, NoCtx, Package, RotoString, Runtime, Val, library};
use rvh::batch::{parse_args, run_batch};
use rvh::tracked::{LIVE24, LOG_EVENTS, Tr24, take_events};
use serde_json::{Value, json};

thread_local! {
    static LOG: RefCell<Vec<Value>> = const { RefCell::new(Vec::new()) };
    static INS: RefCell<Vec<Value>> = const { RefCell::new(Vec::new()) };
}

fn log(v: Value) {
    LOG.with(|l| l.borrow_mut().push(v));
}

fn input(k: i32) -> Value {
    log(json!(["in", k]));
    INS.with(|i| i.borrow().get(k as usize).cloned().unwrap_or_else(|| panic!("no input {k}")))
}

// ---- encoding -------------------------------------------------------------------------------
fn dyadic(sign: u64, mut m: u128, mut e: i64) -> Value {
    if m == 0 {
        return json!({"c": "fin", "s": sign, "m": 0, "e": 0});
    }
    while m % 2 == 0 {
        m /= 2;
        e += 1;
    }
    if m >= 1 << 31 {
        json!({"c": "fin", "s": sign, "m": format!("big:{m:x}"), "e": e})
    } else {
        json!({"c": "fin", "s": sign, "m": m as u64, "e": e})
    }
}

fn enc_f32(x: f32) -> Value {
    let b = x.to_bits() as u64;
    let (s, ex, fr) = (b >> 31, (b >> 23) & 0xFF, b & 0x7F_FFFF);
    if ex == 0xFF {
        return if fr != 0 { json!({"c": "nan"}) } else { json!({"c": "inf", "s": s}) };
    }
    if ex == 0 { dyadic(s, fr as u128, 1 - 127 - 23) } else { dyadic(s, (fr | (1 << 23)) as u128, ex as i64 - 127 - 23) }
}

fn enc_f64(x: f64) -> Value {
    let b = x.to_bits();
    let (s, ex, fr) = (b >> 63, (b >> 52) & 0x7FF, b & ((1 << 52) - 1));
    if ex == 0x7FF {
        return if fr != 0 { json!({"c": "nan"}) } else { json!({"c": "inf", "s": s}) };
    }
    if ex == 0 { dyadic(s, fr as u128, 1 - 1023 - 52) } else { dyadic(s, (fr | (1 << 52)) as u128, ex as i64 - 1023 - 52) }
}

fn dec_f64(v: &Value) -> f64 {
    match v["c"].as_str().unwrap() {
        "nan" => f64::NAN,
        "inf" => {
            if v["s"] == 1 { f64::NEG_INFINITY } else { f64::INFINITY }
        }
        _ => {
            let m = v["m"].as_u64().unwrap() as f64;
            let x = m * 2f64.powi(v["e"].as_i64().unwrap() as i32);
            if v["s"] == 1 { -x } else { x }
        }
    }
}

trait Enc: Sized {
    fn enc(&self) -> Value;
    fn dec(v: &Value) -> Self;
}

macro_rules! int_enc {
    ($($t:ty),*) => {$(
        impl Enc for $t {
            fn enc(&self) -> Value { json!(self.to_le_bytes().to_vec()) }
            fn dec(v: &Value) -> Self {
                let b: Vec<u8> = v.as_array().unwrap().iter().map(|x| x.as_u64().unwrap() as u8).collect();
                <$t>::from_le_bytes(b.try_into().expect("width"))
            }
        }
    )*};
}
int_enc!(i8, u8, i16, u16, i32, u32, i64, u64);

impl Enc for bool {
    fn enc(&self) -> Value { json!(*self) }
    fn dec(v: &Value) -> Self { v.as_bool().unwrap() }
}
impl Enc for char {
    fn enc(&self) -> Value { json!(*self as u32) }
    fn dec(v: &Value) -> Self { char::from_u32(v.as_u64().unwrap() as u32).unwrap() }
}
impl Enc for f32 {
    fn enc(&self) -> Value { enc_f32(*self) }
    fn dec(v: &Value) -> Self { dec_f64(v) as f32 }
}
impl Enc for f64 {
    fn enc(&self) -> Value { enc_f64(*self) }
    fn dec(v: &Value) -> Self { dec_f64(v) }
}
impl Enc for RotoString {
    fn enc(&self) -> Value { { let s: &str = &**self; json!({"s": s.chars().map(|c| c as u32).collect::<Vec<u32>>()}) } }
    fn dec(v: &Value) -> Self {
        let s: String = v["s"].as_array().unwrap().iter().map(|c| char::from_u32(c.as_u64().unwrap() as u32).unwrap()).collect();
        RotoString::from(s.as_str())
    }
}
impl Enc for () {
    fn enc(&self) -> Value { json!("unit") }
    fn dec(_: &Value) -> Self {}
}

/// a host function whose return value crosses the boundary as an Option (niche-optimised on the Rust side
/// for bool / char / String payloads, tagged on the Roto side)
fn optif<T>(tag: i32, c: bool, v: T) -> Option<T> {
    log(json!(["optif", tag]));
    if c { Some(v) } else { None }
}

/// a host METHOD: `recv.selm(tag, y)` records receiver and argument and returns the receiver
fn sel<T: Enc>(recv: T, tag: i32, y: T) -> T {
    log(json!(["sel", tag, recv.enc(), y.enc()]));
    recv
}

fn emit<T: Enc>(tag: i32, v: T) -> T {
    log(json!(["emit", tag, v.enc()]));
    v
}

fn runtime() -> Runtime<NoCtx> {
    let lib = library! {
        #[clone] type Tr = Val<Tr24>;
        // registered constants: same identifier in different modules and at the root (mirrored by GCONSTS in lib/rotoast.py)
        const LIMIT: u32 = 10;
        const FLAG: bool = true;
        mod lo {
            const LIMIT: u32 = 11;
            const BIAS: i64 = -5;
            const FLAG: bool = false;
        }
        mod hi {
            const LIMIT: u32 = 12;
            const BIAS: i64 = 7;
            mod er {
                const LIMIT: u32 = 13;
            }
        }
        fn emit_i8(tag: i32, v: i8) -> i8 { emit(tag, v) }
        fn emit_u8(tag: i32, v: u8) -> u8 { emit(tag, v) }
        fn emit_i16(tag: i32, v: i16) -> i16 { emit(tag, v) }
        fn emit_u16(tag: i32, v: u16) -> u16 { emit(tag, v) }
        fn emit_i32(tag: i32, v: i32) -> i32 { emit(tag, v) }
        fn emit_u32(tag: i32, v: u32) -> u32 { emit(tag, v) }
        fn emit_i64(tag: i32, v: i64) -> i64 { emit(tag, v) }
        fn emit_u64(tag: i32, v: u64) -> u64 { emit(tag, v) }
        fn emit_f32(tag: i32, v: f32) -> f32 { emit(tag, v) }
        fn emit_f64(tag: i32, v: f64) -> f64 { emit(tag, v) }
        fn emit_bool(tag: i32, v: bool) -> bool { emit(tag, v) }
        fn emit_char(tag: i32, v: char) -> char { emit(tag, v) }
        fn emit_str(tag: i32, v: RotoString) -> RotoString { emit(tag, v) }
        fn in_i8(k: i32) -> i8 { Enc::dec(&input(k)) }
        fn in_u8(k: i32) -> u8 { Enc::dec(&input(k)) }
        fn in_i16(k: i32) -> i16 { Enc::dec(&input(k)) }
        fn in_u16(k: i32) -> u16 { Enc::dec(&input(k)) }
        fn in_i32(k: i32) -> i32 { Enc::dec(&input(k)) }
        fn in_u32(k: i32) -> u32 { Enc::dec(&input(k)) }
        fn in_i64(k: i32) -> i64 { Enc::dec(&input(k)) }
        fn in_u64(k: i32) -> u64 { Enc::dec(&input(k)) }
        fn in_f32(k: i32) -> f32 { Enc::dec(&input(k)) }
        fn in_f64(k: i32) -> f64 { Enc::dec(&input(k)) }
        fn in_bool(k: i32) -> bool { Enc::dec(&input(k)) }
        fn in_char(k: i32) -> char { Enc::dec(&input(k)) }
        fn in_str(k: i32) -> RotoString { Enc::dec(&input(k)) }
        fn optif_i8(tag: i32, c: bool, v: i8) -> Option<i8> { optif(tag, c, v) }
        fn optif_u8(tag: i32, c: bool, v: u8) -> Option<u8> { optif(tag, c, v) }
        fn optif_i16(tag: i32, c: bool, v: i16) -> Option<i16> { optif(tag, c, v) }
        fn optif_u16(tag: i32, c: bool, v: u16) -> Option<u16> { optif(tag, c, v) }
        fn optif_i32(tag: i32, c: bool, v: i32) -> Option<i32> { optif(tag, c, v) }
        fn optif_u32(tag: i32, c: bool, v: u32) -> Option<u32> { optif(tag, c, v) }
        fn optif_i64(tag: i32, c: bool, v: i64) -> Option<i64> { optif(tag, c, v) }
        fn optif_u64(tag: i32, c: bool, v: u64) -> Option<u64> { optif(tag, c, v) }
        fn optif_f32(tag: i32, c: bool, v: f32) -> Option<f32> { optif(tag, c, v) }
        fn optif_f64(tag: i32, c: bool, v: f64) -> Option<f64> { optif(tag, c, v) }
        fn optif_bool(tag: i32, c: bool, v: bool) -> Option<bool> { optif(tag, c, v) }
        fn optif_char(tag: i32, c: bool, v: char) -> Option<char> { optif(tag, c, v) }
        fn optif_str(tag: i32, c: bool, v: RotoString) -> Option<RotoString> { optif(tag, c, v) }
        impl i8 { fn selm(self, tag: i32, y: i8) -> i8 { sel(self, tag, y) } }
        impl u8 { fn selm(self, tag: i32, y: u8) -> u8 { sel(self, tag, y) } }
        impl i16 { fn selm(self, tag: i32, y: i16) -> i16 { sel(self, tag, y) } }
        impl u16 { fn selm(self, tag: i32, y: u16) -> u16 { sel(self, tag, y) } }
        impl i32 { fn selm(self, tag: i32, y: i32) -> i32 { sel(self, tag, y) } }
        impl u32 { fn selm(self, tag: i32, y: u32) -> u32 { sel(self, tag, y) } }
        impl i64 { fn selm(self, tag: i32, y: i64) -> i64 { sel(self, tag, y) } }
        impl u64 { fn selm(self, tag: i32, y: u64) -> u64 { sel(self, tag, y) } }
        impl f32 { fn selm(self, tag: i32, y: f32) -> f32 { sel(self, tag, y) } }
        impl f64 { fn selm(self, tag: i32, y: f64) -> f64 { sel(self, tag, y) } }
        impl bool { fn selm(self, tag: i32, y: bool) -> bool { sel(self, tag, y) } }
        impl char { fn selm(self, tag: i32, y: char) -> char { sel(self, tag, y) } }
        impl RotoString { fn selm(self, tag: i32, y: RotoString) -> RotoString { sel(self, tag, y) } }
        fn tick(tag: i32) { log(json!(["tick", tag])); }
        fn mk(tag: i32) -> Val<Tr24> {
            log(json!(["mk", tag]));
            Val(Tr24::new(tag as u64))
        }
        fn use_tr(t: Val<Tr24>) {
            log(json!(["use", if t.valid() { t.tag as i64 } else { -1 }]));
        }
        impl Val<Tr24> {
            /// the conversion f-strings call for a value of this type: a host function, so its position in
            /// the host-call sequence is observable
            fn to_string(t: Val<Tr24>) -> RotoString {
                let tag = if t.valid() { t.tag as i64 } else { -1 };
                log(json!(["trstr", tag]));
                RotoString::from(format!("T{tag}").as_str())
            }
        }
    };
    Runtime::from_lib(lib).unwrap()
}

fn call_main(pkg: &mut Package<NoCtx>, name: &str, ret: &str) -> Result<Value, String> {
    macro_rules! go {
        ($t:ty) => {{
            let f = pkg.get_function::<fn() -> $t>(name).map_err(|e| format!("{e}"))?;
            Ok(f.call().enc())
        }};
    }
    match ret {
        "i8" => go!(i8),
        "u8" => go!(u8),
        "i16" => go!(i16),
        "u16" => go!(u16),
        "i32" => go!(i32),
        "u32" => go!(u32),
        "i64" => go!(i64),
        "u64" => go!(u64),
        "f32" => go!(f32),
        "f64" => go!(f64),
        "bool" => go!(bool),
        "char" => go!(char),
        "str" => go!(RotoString),
        "unit" => go!(()),
        t => Err(format!("unsupported return type {t}")),
    }
}

fn scalar_of(v: &Value, ty: &str) -> Option<(String, u64)> {
    // value in spec representation -> (type name, raw bits) for the LIR evaluator hook
    let bits = match ty {
        "i8" | "u8" | "i16" | "u16" | "i32" | "u32" | "i64" | "u64" => {
            let mut b = [0u8; 8];
            for (i, x) in v.as_array()?.iter().enumerate() {
                b[i] = x.as_u64()? as u8;
            }
            u64::from_le_bytes(b)
        }
        "bool" => v.as_bool()? as u64,
        "char" => v.as_u64()?,
        "f32" => (dec_f64(v) as f32).to_bits() as u64,
        "f64" => dec_f64(v).to_bits(),
        _ => return None,
    };
    Some((ty.to_string(), bits))
}

fn enc_scalar(ty: &str, bits: u64) -> Value {
    match ty {
        "i8" | "u8" => json!((bits as u8).to_le_bytes().to_vec()),
        "i16" | "u16" => json!((bits as u16).to_le_bytes().to_vec()),
        "i32" | "u32" => json!((bits as u32).to_le_bytes().to_vec()),
        "i64" | "u64" => json!(bits.to_le_bytes().to_vec()),
        "bool" => json!(bits != 0),
        "char" => json!(bits),
        "f32" => enc_f32(f32::from_bits(bits as u32)),
        "f64" => enc_f64(f64::from_bits(bits)),
        _ => json!({"unsupported": ty}),
    }
}

/// A line `//@module <name>` starts the source of the sub-module `pkg.<name>`; everything before the first
/// such line is the root module.
fn file_tree(src: &str) -> FileTree {
    if !src.contains("//@module ") {
        return FileTree::test_file("sem.roto", src, 0);
    }
    let mut parts: Vec<(String, String)> = vec![("pkg".into(), String::new())];
    for line in src.lines() {
        if let Some(name) = line.strip_prefix("//@module ") {
            parts.push((name.trim().to_string(), String::new()));
        } else {
            let cur = parts.last_mut().unwrap();
            cur.1.push_str(line);
            cur.1.push('\n');
        }
    }
    let n = parts.len();
    let mut files: Vec<roto::SourceFile> = parts
        .into_iter()
        .map(|(path, contents)| roto::SourceFile {
            name: format!("sem/{path}.roto"),
            module_name: path,
            contents,
            location_offset: 0,
            children: Vec::new(),
        })
        .collect();
    files[0].children = (1..n).collect();
    FileTree { files }
}

fn main() {
    let args = parse_args();
    let rt = runtime();
    LOG_EVENTS.store(true, Ordering::SeqCst);
    run_batch(&args, |case, prog| {
        let src = case["src"].as_str().unwrap();
        let want_eval = case.get("eval").and_then(|b| b.as_bool()).unwrap_or(false);
        let want_mir = case.get("mir").and_then(|b| b.as_bool()).unwrap_or(false);
        // C03 (static part): the MIR the compiler emits for this script, as JSON
        let mir: Value = if want_mir {
            match roto::verif::mir_json(file_tree(src), &rt) {
                Ok(j) => serde_json::from_str(&j).unwrap_or(Value::Null),
                Err(_) => Value::Null,
            }
        } else {
            Value::Null
        };
        if case.get("mir_only").and_then(|b| b.as_bool()).unwrap_or(false) {
            return json!({"compile": if mir.is_null() { "err" } else { "ok" }, "mir": mir, "calls": []});
        }
        // C20: lower once; the evaluator borrows the lowered program, codegen consumes it
        let lowered = match roto::verif::lower(file_tree(src), &rt) {
            Ok(l) => l,
            Err(e) => {
                let kinds = roto::verif::report_kinds(&e);
                let mut msg = String::new();
                let _ = e.write(&mut msg, false);
                return json!({"compile": "err", "kinds": kinds, "msg": msg.chars().take(600).collect::<String>()});
            }
        };
        let calls = case["calls"].as_array().unwrap();
        let mut evals = vec![];
        if want_eval {
            for c in calls {
                let ins = c["ins"].as_array().cloned().unwrap_or_default();
                INS.with(|i| *i.borrow_mut() = ins.iter().map(|x| x["v"].clone()).collect());
                LOG.with(|l| l.borrow_mut().clear());
                let _ = take_events();
                let args: Vec<(String, u64)> = c["args"]
                    .as_array()
                    .map(|a| a.iter().filter_map(|x| scalar_of(&x["v"], x["ty"].as_str().unwrap())).collect())
                    .unwrap_or_default();
                let out = lowered.eval_main(&args);
                let lg = LOG.with(|l| std::mem::take(&mut *l.borrow_mut()));
                // chars are lowered to u32 in the IR: report the evaluator's u32 as a char when main returns one
                let ret = c["ret"].as_str().unwrap_or("");
                evals.push(match out {
                    roto::verif::EvalOutcome::Value(Some((t, b))) if t == "u32" && ret == "char" => {
                        json!({"k": "value", "res": enc_scalar("char", b), "log": lg})
                    }
                    roto::verif::EvalOutcome::Value(Some((t, b))) => json!({"k": "value", "res": enc_scalar(&t, b), "log": lg}),
                    roto::verif::EvalOutcome::Value(None) => json!({"k": "value", "res": "unit", "log": lg}),
                    roto::verif::EvalOutcome::Panic(m) => json!({"k": "panic", "msg": m.chars().take(200).collect::<String>()}),
                });
            }
        }
        let mut pkg = lowered.codegen();
        let mut out = vec![];
        for (k, c) in calls.iter().enumerate() {
            prog.step(k as i64);
            let ins = c["ins"].as_array().cloned().unwrap_or_default();
            INS.with(|i| *i.borrow_mut() = ins.iter().map(|x| x["v"].clone()).collect());
            LOG.with(|l| l.borrow_mut().clear());
            let _ = take_events();
            let live0 = LIVE24.load(Ordering::SeqCst);
            let r = call_main(&mut pkg, c["fn"].as_str().unwrap(), c["ret"].as_str().unwrap());
            let lg = LOG.with(|l| std::mem::take(&mut *l.borrow_mut()));
            let own: Vec<Value> = take_events().into_iter().map(|(k, id, src)| json!([k, id, src])).collect();
            let live = LIVE24.load(Ordering::SeqCst) - live0;
            let mut o = match r {
                Ok(v) => json!({"res": v, "log": lg, "own": own, "live": live}),
                Err(e) => json!({"error": e}),
            };
            if want_eval {
                o["eval"] = evals[k].clone();
            }
            out.push(o);
        }
        json!({"compile": "ok", "calls": out, "mir": mir})
    });
}
