//! C19 replay/record driver: compiles a package given as a list of module files
//! (in memory, `FileSpec`), runs `Package::run_tests` and reports
//!   * whether the package compiled,
//!   * the names `Package::get_tests` yields (in its order),
//!   * the log of `mark(k)` host calls made while `run_tests` ran (order and
//!     multiplicity of test bodies and of the functions they call),
//!   * the verdict of `run_tests` (ok / err).
//! Nothing is judged here; lib/checks/c19.py compares with what TLC computed
//! from spec/TestRunner.tla.
//!
//! case: {"files":[{"mod":["a","b"],"src":".."}, ..]}   (root: "mod":[], must be first;
//!        a parent module always precedes its children)
//!   or  {"disk":[{"path":"a/mod.roto","kind":"file"|"dir","src":".."}, ..], "base": dir|null}
//!        a package DIRECTORY: the entries are created in that order inside a fresh
//!        temporary directory (below `base` if given), the directory is read back with
//!        `FileTree::read` (roto's own file discovery) and compiled.  The result then also
//!        holds "listing": {relative directory: [names in the order `read_dir` yields them]},
//!        an observation of the operating system taken before roto reads the directory.
use std::path::Path;
use std::sync::Mutex;

use roto::{FileSpec, FileTree, Runtime, SourceFile, library};
use rvh::batch::{Progress, parse_args, run_batch};
use serde_json::{Value, json};

static LOG: Mutex<Vec<u64>> = Mutex::new(Vec::new());

struct Node {
    path: Vec<String>,
    src: String,
    children: Vec<Node>,
}

fn insert(node: &mut Node, path: &[String], src: &str) {
    if path.len() == node.path.len() + 1 {
        node.children.push(Node { path: path.to_vec(), src: src.to_string(), children: vec![] });
        return;
    }
    let next = &path[node.path.len()];
    let child = node
        .children
        .iter_mut()
        .find(|c| c.path.last() == Some(next))
        .unwrap_or_else(|| panic!("harness: parent module of {path:?} missing"));
    insert(child, path, src);
}

fn source_file(n: &Node) -> SourceFile {
    let (name, module_name) = if n.path.is_empty() {
        ("pkg.roto".to_string(), "pkg".to_string())
    } else if n.children.is_empty() {
        (format!("{}.roto", n.path.join("/")), n.path.last().unwrap().clone())
    } else {
        (format!("{}/mod.roto", n.path.join("/")), n.path.last().unwrap().clone())
    };
    SourceFile { name, module_name, contents: n.src.clone(), location_offset: 0, children: Vec::new() }
}

fn to_spec(n: &Node, root: bool) -> FileSpec {
    if n.children.is_empty() && !root {
        FileSpec::File(source_file(n))
    } else {
        FileSpec::Directory(source_file(n), n.children.iter().map(|c| to_spec(c, false)).collect())
    }
}

/// names of every directory below `root` in the order the file system lists them
fn listing(root: &Path, rel: &str, out: &mut serde_json::Map<String, Value>) {
    let dir = if rel.is_empty() { root.to_path_buf() } else { root.join(rel) };
    let mut names = Vec::new();
    let mut subdirs = Vec::new();
    for entry in std::fs::read_dir(&dir).expect("harness: read_dir") {
        let entry = entry.expect("harness: read_dir entry");
        let name = entry.file_name().to_string_lossy().to_string();
        if entry.file_type().expect("harness: file_type").is_dir() {
            subdirs.push(if rel.is_empty() { name.clone() } else { format!("{rel}/{name}") });
        }
        names.push(name);
    }
    out.insert(rel.to_string(), json!(names));
    for s in subdirs {
        listing(root, &s, out);
    }
}

/// write the entries of a package directory in the given order
fn write_disk(root: &Path, entries: &[Value]) {
    for e in entries {
        let p = root.join(e["path"].as_str().unwrap());
        if e["kind"].as_str() == Some("dir") {
            std::fs::create_dir_all(&p).expect("harness: create dir");
        } else {
            std::fs::create_dir_all(p.parent().unwrap()).expect("harness: create parent");
            std::fs::write(&p, e["src"].as_str().unwrap()).expect("harness: write file");
        }
    }
}

fn mem_tree(files: &[Value]) -> FileTree {
    let mut root: Option<Node> = None;
    for f in files {
        let path: Vec<String> =
            f["mod"].as_array().unwrap().iter().map(|x| x.as_str().unwrap().to_string()).collect();
        let src = f["src"].as_str().unwrap();
        match &mut root {
            None => {
                assert!(path.is_empty(), "harness: first file must be the root");
                root = Some(Node { path, src: src.to_string(), children: vec![] });
            }
            Some(r) => insert(r, &path, src),
        }
    }
    let root = root.expect("harness: no files");
    FileTree::file_spec(to_spec(&root, true))
}

fn main() {
    let args = parse_args();
    let lib = library! {
        /// record that point `k` of a script was reached
        fn mark(k: u64) {
            LOG.lock().unwrap().push(k);
        }
    };
    let rt = Runtime::from_lib(lib).unwrap();

    run_batch(&args, |case: &Value, prog: &Progress| -> Value {
        // the temporary directory lives until the end of the case
        let mut tmp: Option<tempfile::TempDir> = None;
        let mut listed = serde_json::Map::new();
        let tree = if let Some(entries) = case["disk"].as_array() {
            let mut b = tempfile::Builder::new();
            b.prefix("c19_");
            let dir = match case["base"].as_str() {
                Some(base) => b.tempdir_in(base),
                None => b.tempdir(),
            }
            .expect("harness: tempdir");
            write_disk(dir.path(), entries);
            listing(dir.path(), "", &mut listed);
            prog.step(0);
            let t = FileTree::read(dir.path());
            tmp = Some(dir);
            t
        } else {
            Ok(mem_tree(case["files"].as_array().unwrap()))
        };

        prog.step(0); // compile
        LOG.lock().unwrap().clear();
        let mut pkg = match tree.and_then(|t| t.compile(&rt)) {
            Ok(p) => p,
            Err(e) => {
                let kinds: Vec<&'static str> = roto::verif::report_kinds(&e);
                let text = e.to_string();
                let text: String = text.chars().take(600).collect();
                return json!({"compile": "error", "kinds": kinds, "text": text, "listing": listed,
                              "compile_marks": LOG.lock().unwrap().clone()});
            }
        };
        drop(tmp);
        let compile_marks = LOG.lock().unwrap().clone();

        prog.step(1); // discovery
        let names: Vec<String> = pkg.get_tests().map(|t| t.name().to_string()).collect();

        prog.step(2); // run
        LOG.lock().unwrap().clear();
        let verdict = pkg.run_tests();
        let log = LOG.lock().unwrap().clone();

        prog.step(3); // a second run must behave the same (determinism)
        LOG.lock().unwrap().clear();
        let verdict2 = pkg.run_tests();
        let log2 = LOG.lock().unwrap().clone();

        json!({
            "compile": "ok",
            "listing": listed,
            "compile_marks": compile_marks,
            "names": names,
            "log": log,
            "result": if verdict.is_ok() { "ok" } else { "err" },
            "log2": log2,
            "result2": if verdict2.is_ok() { "ok" } else { "err" },
        })
    });
}
