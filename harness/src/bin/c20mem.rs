//! C20 (evaluator memory): binding of spec/EvalMem.tla to the real `roto::lir::Memory` through the
//! cfg-guarded hook `roto::verif::EvalMem`.
//!
//! `c20mem <in> <out> replay`: every case is `{"ops":[{"op":..,args..},..]}` (a behaviour emitted by TLC);
//!     the operations are executed on a fresh `EvalMem`, the outcome of every operation is returned
//!     (`{"k":"done"} | {"k":"index","v":i} | {"k":"bytes","v":[..]} | {"k":"panic","msg":".."}`); the
//!     comparison with the specified outcome happens in lib/checks/c20mem.py, the panic message is
//!     diagnostics only.
//! `c20mem <in> <out> record`: every case is `{"seed":s,"nops":n}`; a seeded generator produces a long
//!     operation history (call/return nesting, offset chains, copies of 1..40 bytes, deliberate faults)
//!     and returns one event per operation with its arguments and the outcome of the real memory.  The
//!     generator keeps bookkeeping only to pick plausible arguments; it predicts nothing.
use roto::verif::{EvalMem, MemOutcome};
use rvh::batch::{Progress, parse_args, run_batch};
use serde_json::{Value, json};

fn enc(o: MemOutcome) -> Value {
    match o {
        MemOutcome::Done => json!({"k": "done"}),
        MemOutcome::Index(i) => json!({"k": "index", "v": i}),
        MemOutcome::Bytes(b) => json!({"k": "bytes", "v": b}),
        MemOutcome::Panic(m) => {
            // diagnostics only: one short line
            let m: String = m.replace('\n', " ").chars().take(70).collect();
            json!({"k": "panic", "msg": m})
        }
    }
}

fn us(op: &Value, f: &str) -> usize {
    op[f].as_u64().unwrap_or_else(|| panic!("operation {op} lacks integer field {f}")) as usize
}

fn apply(mem: &mut EvalMem, op: &Value) -> MemOutcome {
    match op["op"].as_str().unwrap_or("?") {
        "allocate" => mem.allocate(us(op, "n")),
        "push_frame" => mem.push_frame(),
        "pop_frame" => mem.pop_frame(),
        "offset_by" => mem.offset_by(us(op, "p"), us(op, "k")),
        "write" => {
            let b: Vec<u8> = op["bytes"]
                .as_array()
                .expect("write needs bytes")
                .iter()
                .map(|x| x.as_u64().unwrap() as u8)
                .collect();
            mem.write(us(op, "p"), &b)
        }
        "read" => mem.read(us(op, "p"), us(op, "n")),
        "copy" => mem.copy(us(op, "to"), us(op, "from"), us(op, "n")),
        "get_byte" => mem.get_byte(us(op, "p")),
        other => panic!("unknown operation {other}"),
    }
}

// ------------------------------------------------------------------ seeded generator (record mode)

struct Rng(u64);
impl Rng {
    fn next(&mut self) -> u64 {
        // splitmix64
        self.0 = self.0.wrapping_add(0x9E37_79B9_7F4A_7C15);
        let mut z = self.0;
        z = (z ^ (z >> 30)).wrapping_mul(0xBF58_476D_1CE4_E5B9);
        z = (z ^ (z >> 27)).wrapping_mul(0x94D0_49BB_1331_11EB);
        z ^ (z >> 31)
    }
    fn below(&mut self, n: usize) -> usize {
        if n == 0 { 0 } else { (self.next() % n as u64) as usize }
    }
    fn pick<T: Copy>(&mut self, xs: &[T]) -> T {
        xs[self.below(xs.len())]
    }
    fn chance(&mut self, percent: usize) -> bool {
        self.below(100) < percent
    }
}

/// What the generator believes about a pointer it was handed (only used to choose arguments).
#[derive(Clone, Copy)]
struct PInfo {
    p: usize,
    size: usize, // size of the allocation
    off: usize,  // offset the pointer was created with
    depth: usize, // stack depth (number of frames) at creation
}

struct Gen {
    rng: Rng,
    mem: EvalMem,
    events: Vec<Value>,
    frames: Vec<Vec<PInfo>>, // believed live pointers per frame
    stale: Vec<PInfo>,       // pointers of popped frames
    handed: usize,           // number of pointers handed out so far
}

impl Gen {
    fn exec(&mut self, op: Value) -> Value {
        let o = enc(apply(&mut self.mem, &op));
        let mut e = op;
        e["out"] = o.clone();
        self.events.push(e);
        o
    }
    fn got_index(o: &Value) -> Option<usize> {
        if o["k"] == "index" { o["v"].as_u64().map(|x| x as usize) } else { None }
    }
    fn allocate(&mut self, n: usize) -> Option<PInfo> {
        let o = self.exec(json!({"op": "allocate", "n": n}));
        let p = Self::got_index(&o)?;
        self.handed += 1;
        let pi = PInfo { p, size: n, off: 0, depth: self.frames.len() };
        self.frames.last_mut().unwrap().push(pi);
        Some(pi)
    }
    fn offset(&mut self, base: PInfo, k: usize, live: bool) -> Option<PInfo> {
        let o = self.exec(json!({"op": "offset_by", "p": base.p, "k": k}));
        let p = Self::got_index(&o)?;
        self.handed += 1;
        let pi = PInfo { p, size: base.size, off: base.off + k, depth: base.depth };
        if live {
            // keep it with the frame it points into
            if let Some(f) = self.frames.get_mut(base.depth - 1) {
                f.push(pi);
            }
        } else {
            self.stale.push(pi);
        }
        Some(pi)
    }
    fn live_ptrs(&self) -> Vec<PInfo> {
        self.frames.iter().flatten().copied().collect()
    }
    fn any_live(&mut self) -> Option<PInfo> {
        let l = self.live_ptrs();
        if l.is_empty() { None } else { Some(l[self.rng.below(l.len())]) }
    }
    /// a live pointer at offset `off` (multiple of `n`) of an allocation that has room for n bytes there
    fn aligned_into(&mut self, n: usize) -> Option<PInfo> {
        let l: Vec<PInfo> = self.live_ptrs().into_iter().filter(|q| q.size >= n.max(1)).collect();
        if l.is_empty() {
            return None;
        }
        let q = l[self.rng.below(l.len())];
        let unit = n.max(1);
        if q.off + n <= q.size && q.off % unit == 0 && self.rng.chance(60) {
            return Some(q);
        }
        // derive a pointer at an aligned offset through an offset chain from a base pointer
        let base = l.iter().copied().find(|b| b.off == 0 && b.size == q.size && b.depth == q.depth).unwrap_or(q);
        if base.off != 0 {
            return Some(base);
        }
        let slots = (base.size - n) / unit + 1;
        let target = self.rng.below(slots) * unit;
        if target == 0 {
            return Some(base);
        }
        if self.rng.chance(50) && target >= 2 * unit {
            let first = self.offset(base, unit, true)?;
            self.offset(first, target - unit, true)
        } else {
            self.offset(base, target, true)
        }
    }
    fn bytes(&mut self, n: usize) -> Vec<u8> {
        (0..n).map(|_| (self.rng.next() & 0xff) as u8).collect()
    }
    fn call(&mut self) {
        self.exec(json!({"op": "push_frame"}));
        self.frames.push(vec![]);
        let k = 1 + self.rng.below(3);
        for _ in 0..k {
            let n = self.rng.pick(&[0usize, 1, 2, 3, 4, 4, 8, 8, 8, 12, 16, 16, 24, 32, 40, 64]);
            self.allocate(n);
        }
    }
    fn ret(&mut self) {
        let o = self.exec(json!({"op": "pop_frame"}));
        if o["k"] == "index" && o["v"] == 1 && self.frames.len() > 1 {
            let f = self.frames.pop().unwrap();
            self.stale.extend(f);
            if self.stale.len() > 40 {
                let cut = self.stale.len() - 40;
                self.stale.drain(0..cut);
            }
        }
    }
    fn access(&mut self, q: PInfo) {
        // one of the four accesses through q with a plausible size
        let n = self.rng.pick(&[0usize, 1, 1, 2, 4, 4, 8, 8, 16]);
        match self.rng.below(4) {
            0 => {
                let b = self.bytes(n);
                self.exec(json!({"op": "write", "p": q.p, "bytes": b}));
            }
            1 => {
                self.exec(json!({"op": "read", "p": q.p, "n": n}));
            }
            2 => {
                self.exec(json!({"op": "get_byte", "p": q.p}));
            }
            _ => {
                if let Some(o) = self.any_live() {
                    if self.rng.chance(50) {
                        self.exec(json!({"op": "copy", "to": q.p, "from": o.p, "n": n}));
                    } else {
                        self.exec(json!({"op": "copy", "to": o.p, "from": q.p, "n": n}));
                    }
                } else {
                    self.exec(json!({"op": "copy", "to": q.p, "from": q.p, "n": n}));
                }
            }
        }
    }
    fn fault(&mut self) {
        match self.rng.below(9) {
            // stale pointer after pop (+ push): all four accesses, offset of a stale pointer
            0 | 1 | 2 => {
                if self.stale.is_empty() {
                    return;
                }
                let q = self.stale[self.rng.below(self.stale.len())];
                if self.rng.chance(20) {
                    let k = self.rng.pick(&[0usize, 1, 4, 8]);
                    if let Some(r) = self.offset(q, k, false) {
                        self.access(r);
                    }
                } else {
                    self.access(q);
                }
            }
            // off by one: an access of n bytes that ends one byte past the end
            3 => {
                let n = self.rng.pick(&[1usize, 2, 4, 8]);
                if let Some(q) = self.any_live() {
                    if q.off == 0 && q.size + 1 >= n {
                        if let Some(r) = self.offset(q, q.size + 1 - n, true) {
                            if self.rng.chance(50) {
                                self.exec(json!({"op": "read", "p": r.p, "n": n}));
                            } else {
                                let b = self.bytes(n);
                                self.exec(json!({"op": "write", "p": r.p, "bytes": b}));
                            }
                        }
                    }
                }
            }
            // misaligned
            4 => {
                let n = self.rng.pick(&[2usize, 4, 8]);
                let k = 1 + self.rng.below(n - 1);
                if let Some(q) = self.any_live() {
                    if q.off == 0 {
                        if let Some(r) = self.offset(q, k, true) {
                            if self.rng.chance(50) {
                                self.exec(json!({"op": "read", "p": r.p, "n": n}));
                            } else {
                                let b = self.bytes(n);
                                self.exec(json!({"op": "write", "p": r.p, "bytes": b}));
                            }
                        }
                    }
                }
            }
            // a pointer that was never handed out
            5 => {
                let p = self.handed + self.rng.below(3);
                match self.rng.below(5) {
                    0 => self.exec(json!({"op": "read", "p": p, "n": 1})),
                    1 => self.exec(json!({"op": "write", "p": p, "bytes": [1]})),
                    2 => self.exec(json!({"op": "get_byte", "p": p})),
                    3 => self.exec(json!({"op": "offset_by", "p": p, "k": 1})),
                    _ => {
                        let q = self.any_live().map(|q| q.p).unwrap_or(p);
                        if self.rng.chance(50) {
                            self.exec(json!({"op": "copy", "to": q, "from": p, "n": 1}))
                        } else {
                            self.exec(json!({"op": "copy", "to": p, "from": q, "n": 1}))
                        }
                    }
                };
            }
            // the address one past the end, the address far past the end
            6 => {
                if let Some(q) = self.any_live() {
                    if q.off == 0 {
                        let k = if self.rng.chance(70) { q.size } else { q.size + 1 + self.rng.below(70) };
                        if let Some(r) = self.offset(q, k, true) {
                            self.exec(json!({"op": "get_byte", "p": r.p}));
                            self.exec(json!({"op": "read", "p": r.p, "n": 0}));
                        }
                    }
                }
            }
            // copy larger than one of the two allocations
            7 => {
                let l = self.live_ptrs();
                if l.len() >= 2 {
                    let a = l[self.rng.below(l.len())];
                    let b = l[self.rng.below(l.len())];
                    let n = a.size.max(b.size);
                    self.exec(json!({"op": "copy", "to": a.p, "from": b.p, "n": n}));
                }
            }
            // unwinding below the root
            _ => {
                if self.frames.len() <= 2 {
                    self.ret();
                    self.ret();
                }
            }
        }
    }
    fn step(&mut self) {
        let depth = self.frames.len();
        let r = self.rng.below(100);
        if r < 10 && depth < 12 {
            self.call();
        } else if r < 18 {
            self.ret();
        } else if r < 24 {
            let n = self.rng.pick(&[0usize, 1, 2, 4, 8, 12, 16, 24, 40, 64]);
            self.allocate(n);
        } else if r < 42 {
            // aligned write of 1/2/4/8 (or the whole allocation)
            let n = self.rng.pick(&[1usize, 1, 2, 4, 4, 8, 8]);
            if let Some(q) = self.aligned_into(n) {
                let b = self.bytes(n);
                self.exec(json!({"op": "write", "p": q.p, "bytes": b}));
            }
        } else if r < 58 {
            let n = self.rng.pick(&[1usize, 1, 2, 4, 4, 8, 8]);
            if let Some(q) = self.aligned_into(n) {
                self.exec(json!({"op": "read", "p": q.p, "n": n}));
            }
        } else if r < 64 {
            // whole-allocation write / read through the base pointer
            if let Some(q) = self.any_live() {
                if q.off == 0 {
                    if self.rng.chance(50) {
                        let b = self.bytes(q.size);
                        self.exec(json!({"op": "write", "p": q.p, "bytes": b}));
                    } else {
                        self.exec(json!({"op": "read", "p": q.p, "n": q.size}));
                    }
                }
            }
        } else if r < 80 {
            // copy of 1..40 bytes between two places that have room for it
            let n = 1 + self.rng.below(40);
            let from = self.aligned_into(n);
            let to = self.aligned_into(n);
            if let (Some(f), Some(t)) = (from, to) {
                self.exec(json!({"op": "copy", "to": t.p, "from": f.p, "n": n}));
                // look at what arrived
                if self.rng.chance(60) {
                    self.exec(json!({"op": "read", "p": t.p, "n": n}));
                }
            }
        } else if r < 86 {
            if let Some(q) = self.any_live() {
                self.exec(json!({"op": "get_byte", "p": q.p}));
            }
        } else {
            self.fault();
        }
    }
    fn sweep(&mut self) {
        // read every believed-live allocation completely
        for q in self.live_ptrs() {
            if q.off == 0 {
                self.exec(json!({"op": "read", "p": q.p, "n": q.size}));
            }
        }
    }
}

fn record(case: &Value, prog: &Progress) -> Value {
    let seed = case["seed"].as_u64().unwrap_or(1);
    let nops = case["nops"].as_u64().unwrap_or(300) as usize;
    let mut g = Gen {
        rng: Rng(seed),
        mem: EvalMem::new(),
        events: vec![],
        frames: vec![vec![]],
        stale: vec![],
        handed: 0,
    };
    // what the evaluator does first: the context pointer
    g.allocate(0);
    let mut k = 0;
    while g.events.len() < nops {
        prog.step(k);
        k += 1;
        g.step();
        if k % 97 == 0 {
            g.sweep();
        }
    }
    g.sweep();
    json!({"events": g.events})
}

fn replay(case: &Value, prog: &Progress) -> Value {
    let mut mem = EvalMem::new();
    let mut outs = vec![];
    for (k, op) in case["ops"].as_array().expect("ops").iter().enumerate() {
        prog.step(k as i64);
        outs.push(enc(apply(&mut mem, op)));
    }
    json!({"outs": outs})
}

fn main() {
    let args = parse_args();
    // every operation runs under catch_unwind inside the hook: keep stderr quiet
    std::panic::set_hook(Box::new(|_| {}));
    let mode = args.extra.first().cloned().unwrap_or_else(|| "replay".into());
    match mode.as_str() {
        "replay" => run_batch(&args, replay),
        "record" => run_batch(&args, record),
        m => panic!("unknown mode {m}"),
    }
}
