//! C15 replay: ListSeq behaviours replayed into roto::List<T> (Rust API), into
//! compiled scripts, or alternating, for six element kinds.
//! Observations (abstract values) are written per step; the comparison with the
//! specification's expected observation happens in lib/checks/c15.py.
use std::collections::HashMap;
use std::sync::atomic::Ordering;

use roto::{FileTree, List, RotoString, Runtime, Val, library};
use rvh::batch::{Progress, parse_args, run_batch};
use rvh::tracked::{LIVE0, LIVE24, Tr0, Tr24};
use serde_json::{Value, json};

const HUGE: i64 = 1_000_000;

fn script(e: &str) -> String {
    let mut s = format!(
        r#"
fn l_new() -> List[E] {{ List.new() }}
fn l_lit0() -> List[E] {{ [] }}
fn l_lit2(a: E, b: E) -> List[E] {{ [a, b] }}
fn l_push(l: List[E], v: E) {{ l.push(v); }}
fn l_get(l: List[E], i: u64) -> E? {{ l.get(i) }}
fn l_len(l: List[E]) -> u64 {{ l.len() }}
fn l_is_empty(l: List[E]) -> bool {{ l.is_empty() }}
fn l_capacity(l: List[E]) -> u64 {{ l.capacity() }}
fn l_swap(l: List[E], i: u64, j: u64) {{ l.swap(i, j); }}
fn l_concat(a: List[E], b: List[E]) -> List[E] {{ a.concat(b) }}
fn l_plus(a: List[E], b: List[E]) -> List[E] {{ a + b }}
fn l_contains(l: List[E], v: E) -> bool {{ l.contains(v) }}
fn l_index(l: List[E], v: E) -> u64? {{ l.index(v) }}
fn l_eq(a: List[E], b: List[E]) -> bool {{ a == b }}
fn l_ne(a: List[E], b: List[E]) -> bool {{ a != b }}
fn l_iter(l: List[E]) -> List[E] {{
    let out: List[E] = [];
    for x in l {{ out.push(x); }}
    out
}}
fn l_iter_push(l: List[E], n: u64) -> u64 {{
    for x in l {{
        if l.len() < n {{ l.push(x); }}
    }}
    l.len()
}}
fn l_clone(l: List[E]) -> List[E] {{
    let m = l;
    m
}}
"#
    );
    s = s.replace("E", e);
    if e == "String" {
        s.push_str("fn l_join(l: List[String], sep: String) -> String { l.join(sep) }\n");
    }
    s
}

fn idx_usize(i: i64) -> usize {
    if i == HUGE { usize::MAX } else { i as usize }
}
fn idx_u64(i: i64) -> u64 {
    if i == HUGE { u64::MAX } else { i as u64 }
}

macro_rules! kind {
    ($fname:ident, $t:ty, $roto:expr, $mk:expr, $abs:expr, $live:expr) => {
        fn $fname(rt: &Runtime<roto::NoCtx>, route: &str, args: &rvh::batch::Args) {
            type T = $t;
            let mk: fn(u64) -> T = $mk;
            let abs: fn(&T) -> u64 = $abs;
            let live: fn() -> Option<i64> = $live;
            let mut pkg = FileTree::test_file("c15.roto", &script($roto), 0)
                .compile(rt)
                .map_err(|e| e.to_string())
                .expect("c15 script must compile");
            let f_new = pkg.get_function::<fn() -> List<T>>("l_new").unwrap();
            let f_lit0 = pkg.get_function::<fn() -> List<T>>("l_lit0").unwrap();
            let f_lit2 = pkg.get_function::<fn(T, T) -> List<T>>("l_lit2").unwrap();
            let f_push = pkg.get_function::<fn(List<T>, T) -> ()>("l_push").unwrap();
            let f_get = pkg.get_function::<fn(List<T>, u64) -> Option<T>>("l_get").unwrap();
            let f_len = pkg.get_function::<fn(List<T>) -> u64>("l_len").unwrap();
            let f_is_empty = pkg.get_function::<fn(List<T>) -> bool>("l_is_empty").unwrap();
            let f_capacity = pkg.get_function::<fn(List<T>) -> u64>("l_capacity").unwrap();
            let f_swap = pkg.get_function::<fn(List<T>, u64, u64) -> ()>("l_swap").unwrap();
            let f_concat = pkg.get_function::<fn(List<T>, List<T>) -> List<T>>("l_concat").unwrap();
            let f_plus = pkg.get_function::<fn(List<T>, List<T>) -> List<T>>("l_plus").unwrap();
            let f_contains = pkg.get_function::<fn(List<T>, T) -> bool>("l_contains").unwrap();
            let f_index = pkg.get_function::<fn(List<T>, T) -> Option<u64>>("l_index").unwrap();
            let f_eq = pkg.get_function::<fn(List<T>, List<T>) -> bool>("l_eq").unwrap();
            let f_ne = pkg.get_function::<fn(List<T>, List<T>) -> bool>("l_ne").unwrap();
            let f_iter = pkg.get_function::<fn(List<T>) -> List<T>>("l_iter").unwrap();
            let f_iter_push = pkg.get_function::<fn(List<T>, u64) -> u64>("l_iter_push").unwrap();
            let f_clone = pkg.get_function::<fn(List<T>) -> List<T>>("l_clone").unwrap();

            run_batch(args, |case: &Value, prog: &Progress| -> Value {
            let base_live = live();
            let mut hs: HashMap<String, List<T>> = HashMap::new();
            // initial configuration: heap0 / hmap0
            let heap0 = case["heap0"].as_array().unwrap();
            let lists: Vec<List<T>> = heap0
                .iter()
                .map(|s| {
                    let v: Vec<T> = s.as_array().unwrap().iter().map(|x| mk(x.as_u64().unwrap())).collect();
                    List::from(v)
                })
                .collect();
            for (h, id) in case["hmap0"].as_object().unwrap() {
                let id = id.as_u64().unwrap() as usize;
                if id > 0 {
                    hs.insert(h.clone(), lists[id - 1].clone());
                }
            }
            drop(lists);

            let mut out = vec![];
            let seq = |l: &List<T>| -> Value { Value::from(l.to_vec().iter().map(|x| abs(x)).collect::<Vec<u64>>()) };
            for (k, op) in case["ops"].as_array().unwrap().iter().enumerate() {
                prog.step(k as i64);
                let script = match route {
                    "rust" => false,
                    "script" => true,
                    _ => k % 2 == 1,
                };
                let name = op["op"].as_str().unwrap();
                let h = |f: &str| op[f].as_str().unwrap().to_string();
                let res: Value = match name {
                    "new" => {
                        let l = if script { if k % 4 < 2 { f_new.call() } else { f_lit0.call() } } else { List::new() };
                        hs.insert(h("h"), l);
                        json!("ok")
                    }
                    "from_vec" => {
                        let s: Vec<u64> = op["s"].as_array().unwrap().iter().map(|x| x.as_u64().unwrap()).collect();
                        let l = if script {
                            assert!(s.len() == 2);
                            f_lit2.call(mk(s[0]), mk(s[1]))
                        } else {
                            List::from(s.iter().map(|x| mk(*x)).collect::<Vec<T>>())
                        };
                        hs.insert(h("h"), l);
                        json!("ok")
                    }
                    "push" => {
                        let l = &hs[&h("h")];
                        let v = mk(op["v"].as_u64().unwrap());
                        if script { f_push.call(l.clone(), v) } else { l.push(v) }
                        json!("ok")
                    }
                    "get" => {
                        let l = &hs[&h("h")];
                        let i = op["i"].as_i64().unwrap();
                        let r = if script { f_get.call(l.clone(), idx_u64(i)) } else { l.get(idx_usize(i)) };
                        match r {
                            Some(x) => json!([abs(&x)]),
                            None => json!([]),
                        }
                    }
                    "len" => {
                        let l = &hs[&h("h")];
                        json!(if script { f_len.call(l.clone()) } else { l.len() as u64 })
                    }
                    "is_empty" => {
                        let l = &hs[&h("h")];
                        json!(if script { f_is_empty.call(l.clone()) } else { l.is_empty() })
                    }
                    "capacity" => {
                        let l = &hs[&h("h")];
                        let c = if script { f_capacity.call(l.clone()) } else { l.capacity() as u64 };
                        json!(c >= l.len() as u64)
                    }
                    "swap" => {
                        let l = &hs[&h("h")];
                        let (i, j) = (op["i"].as_i64().unwrap(), op["j"].as_i64().unwrap());
                        if script { f_swap.call(l.clone(), idx_u64(i), idx_u64(j)) } else { l.swap(idx_usize(i), idx_usize(j)) }
                        json!("ok")
                    }
                    "concat" => {
                        let a = &hs[&h("a")];
                        let b = &hs[&h("b")];
                        let c = if script {
                            if k % 4 < 2 { f_concat.call(a.clone(), b.clone()) } else { f_plus.call(a.clone(), b.clone()) }
                        } else {
                            a.concat(b)
                        };
                        hs.insert(h("c"), c);
                        json!("ok")
                    }
                    "contains" => {
                        let l = &hs[&h("h")];
                        let v = mk(op["v"].as_u64().unwrap());
                        json!(if script { f_contains.call(l.clone(), v) } else { l.contains(&v) })
                    }
                    "index" => {
                        let l = &hs[&h("h")];
                        let v = mk(op["v"].as_u64().unwrap());
                        let r = if script { f_index.call(l.clone(), v) } else { l.index(&v).map(|x| x as u64) };
                        match r {
                            Some(x) => json!([x]),
                            None => json!([]),
                        }
                    }
                    "eq" => {
                        let a = &hs[&h("a")];
                        let b = &hs[&h("b")];
                        if script {
                            let e = f_eq.call(a.clone(), b.clone());
                            let n = f_ne.call(a.clone(), b.clone());
                            if e == n { json!("eq and ne agree") } else { json!(e) }
                        } else {
                            json!(a == b)
                        }
                    }
                    "to_vec" => seq(&hs[&h("h")]),
                    "iter" => {
                        let l = &hs[&h("h")];
                        if script {
                            let o = f_iter.call(l.clone());
                            seq(&o)
                        } else {
                            Value::from(l.clone().into_iter().map(|x| abs(&x)).collect::<Vec<u64>>())
                        }
                    }
                    "iter_push" => {
                        let l = &hs[&h("h")];
                        let n = op["n"].as_u64().unwrap();
                        if script {
                            json!(f_iter_push.call(l.clone(), n))
                        } else {
                            for x in l.clone() {
                                if (l.len() as u64) < n {
                                    l.push(x);
                                }
                            }
                            json!(l.len() as u64)
                        }
                    }
                    "clone" => {
                        let a = hs[&h("a")].clone();
                        let b = if script { f_clone.call(a) } else { a };
                        hs.insert(h("b"), b);
                        json!("ok")
                    }
                    "drop" => {
                        hs.remove(&h("h"));
                        json!("ok")
                    }
                    other => panic!("unknown op {other}"),
                };
                let lv = match (live(), base_live) {
                    (Some(a), Some(b)) => json!(a - b),
                    _ => Value::Null,
                };
                out.push(json!({"res": res, "live": lv}));
            }
            // final accounting: after dropping every handle nothing may stay alive
            hs.clear();
            let end = match (live(), base_live) {
                (Some(a), Some(b)) => json!(a - b),
                _ => Value::Null,
            };
            json!({"steps": out, "end_live": end})
            });
        }
    };
}

kind!(run_u8, u8, "u8", |a| [7u8, 200, 0, 255][a as usize], |x| match *x { 7 => 0, 200 => 1, 0 => 2, 255 => 3, _ => 99 }, || None);
kind!(run_u64, u64, "u64", |a| [1u64 << 40, 3, 0, u64::MAX][a as usize], |x| match *x { 3 => 1, 0 => 2, u64::MAX => 3, v if v == 1u64 << 40 => 0, _ => 99 }, || None);
// an element type whose stored form (T::Transformed = RotoOption<u64>) differs from the Rust type
kind!(
    run_optu64,
    Option<u64>,
    "u64?",
    |a| [Some(1u64 << 40), None, Some(0), Some(u64::MAX)][a as usize],
    |x| match *x {
        None => 1,
        Some(0) => 2,
        Some(u64::MAX) => 3,
        Some(v) if v == 1u64 << 40 => 0,
        _ => 99,
    },
    || None
);
kind!(
    run_string,
    RotoString,
    "String",
    |a| RotoString::from(["a", "h\u{e9}llo w\u{f6}rld, this is a long string beyond any inline buffer", "", "\u{1F600}"][a as usize]),
    |x| match &**x {
        "a" => 0,
        "" => 2,
        "\u{1F600}" => 3,
        "h\u{e9}llo w\u{f6}rld, this is a long string beyond any inline buffer" => 1,
        _ => 99,
    },
    || None
);
kind!(
    run_list,
    List<u8>,
    "List[u8]",
    |a| List::from([vec![1u8], vec![2, 3], vec![], vec![9, 9, 9, 9, 9, 9, 9, 9, 9]][a as usize].clone()),
    |x| match x.to_vec().as_slice() {
        [1] => 0,
        [2, 3] => 1,
        [] => 2,
        [9, 9, 9, 9, 9, 9, 9, 9, 9] => 3,
        _ => 99,
    },
    || None
);
kind!(
    run_tr24,
    Val<Tr24>,
    "Tr24",
    |a| Val(Tr24::new(a + 100)),
    |x| if x.valid() { x.tag - 100 } else { 99 },
    || Some(LIVE24.load(Ordering::SeqCst))
);
kind!(run_tr0, Val<Tr0>, "Tr0", |_| Val(Tr0::new()), |_| 0, || Some(LIVE0.load(Ordering::SeqCst)));

fn main() {
    let args = parse_args();
    let kind = args.extra.first().cloned().unwrap_or_else(|| "u64".into());
    let route = args.extra.get(1).cloned().unwrap_or_else(|| "rust".into());
    let lib = library! {
        #[clone] type Tr24 = Val<Tr24>;
        #[clone] type Tr0 = Val<Tr0>;
    };
    let rt = Runtime::from_lib(lib).unwrap();
    match kind.as_str() {
        "u8" => run_u8(&rt, &route, &args),
        "u64" => run_u64(&rt, &route, &args),
        "optu64" => run_optu64(&rt, &route, &args),
        "string" => run_string(&rt, &route, &args),
        "list" => run_list(&rt, &route, &args),
        "tr24" => run_tr24(&rt, &route, &args),
        "tr0" => run_tr0(&rt, &route, &args),
        k => panic!("unknown kind {k}"),
    }
}
