//! C12 recording driver: real multi-threaded runs whose per-thread event lists are
//! validated by TLC against spec/Conc.tla (through spec/TraceConc.tla).
//!
//! One case = one run:
//!   {"n":N, "m1":M1, "m2":M2, "bg":B, "own":[bool;B], "c1":.., "c2":.., "pace_us":.., "seed":.., "racy":false}
//!
//! Threads (numbered like in the specification): 1 = main, 2..N+1 = workers, N+2.. = background.
//!   main     build_rt g=1, compile m=1, get (one bundle of function handles), spawn (a clone of
//!            the bundle per worker), ... at the burst point: drop_pkg 1, drop_handles 1 ..., join,
//!            drop_rt 1, quiesce (measured totals)
//!   worker   M1 paced calls (spread over the time the background threads compile), burst point,
//!            M2 calls back to back, drop_handles 1
//!   backgr.  (own runtime: build_rt g) c1 x {compile, get, calls, drop_pkg/drop_handles in either
//!            order}, compile + get, burst point, drop_pkg, call, drop_handles, c2 x {...},
//!            (drop_rt g).  A background thread without its own runtime compiles against the
//!            main thread's Runtime (shared by reference) and calls the same registered closure.
//!
//! Every thread appends its events to its own list in program order (no shared log, no cross
//! thread order is recorded).  The registered closure `next` returns the previous value of an
//! AtomicU64 and notes (g, prev) in a thread-local list that the calling thread turns into
//! "cl" events between "call_begin" and "call_end".  Wall-clock intervals (Instant, no
//! synchronisation) are kept beside the events and only used to count how often compilations /
//! drops overlapped calls of other threads (evidence, never asserted).
use std::cell::RefCell;
use std::sync::Arc;
use std::sync::atomic::{AtomicBool, AtomicI64, AtomicU64, AtomicUsize, Ordering};
use std::time::{Duration, Instant};

use roto::{FileTree, NoCtx, Package, Runtime, TypedFunc, Val, library};
use rvh::batch::{Progress, parse_args, run_batch};
use serde_json::{Value, json};

// ------------------------------------------------------------------ tracked host value

static LIVE: AtomicI64 = AtomicI64::new(0);
static CREATED: AtomicU64 = AtomicU64::new(0);
static CLONED: AtomicU64 = AtomicU64::new(0);
static DROPPED: AtomicU64 = AtomicU64::new(0);
/// a tracked value was used, cloned or dropped after its release / without ever being built
static CORRUPT: AtomicU64 = AtomicU64::new(0);

const MAGIC: u64 = 0xA5A5_5A5A_DEAD_BEEF;

#[derive(Debug)]
struct Tk {
    tag: u64,
    check: u64,
}

impl Tk {
    fn new(tag: u64) -> Self {
        LIVE.fetch_add(1, Ordering::SeqCst);
        CREATED.fetch_add(1, Ordering::SeqCst);
        Tk { tag, check: tag ^ MAGIC }
    }
    fn valid(&self) -> bool {
        self.check == self.tag ^ MAGIC
    }
}

impl Clone for Tk {
    fn clone(&self) -> Self {
        if !self.valid() {
            CORRUPT.fetch_add(1, Ordering::SeqCst);
        }
        LIVE.fetch_add(1, Ordering::SeqCst);
        CLONED.fetch_add(1, Ordering::SeqCst);
        Tk { tag: self.tag, check: self.check }
    }
}

impl PartialEq for Tk {
    fn eq(&self, other: &Self) -> bool {
        self.tag == other.tag
    }
}

impl Drop for Tk {
    fn drop(&mut self) {
        if !self.valid() {
            CORRUPT.fetch_add(1, Ordering::SeqCst);
        }
        LIVE.fetch_sub(1, Ordering::SeqCst);
        DROPPED.fetch_add(1, Ordering::SeqCst);
        self.check = 0x0BAD_0BAD_0BAD_0BAD;
    }
}

// ------------------------------------------------------------------ the registered library

thread_local! {
    /// (g, previous value) of every call of the registered closure made on this thread
    static CL_LOG: RefCell<Vec<(u64, u64)>> = const { RefCell::new(Vec::new()) };
}

/// `racy` replaces the atomic increment by a separate load and store (what a `Cell` capture
/// would do if the API accepted one); only used to demonstrate that the trace specification
/// rejects lost updates, never in a normal run.
fn build_runtime(g: u64, counter: Arc<AtomicU64>, racy: bool) -> Runtime<NoCtx> {
    Runtime::from_lib(library! {
        #[clone] type Tk = Val<Tk>;

        fn mk(tag: u64) -> Val<Tk> {
            Val(Tk::new(tag))
        }

        fn tag(t: Val<Tk>) -> u64 {
            if t.0.valid() { t.0.tag } else { CORRUPT.fetch_add(1, Ordering::SeqCst); 77777 }
        }

        const RC: Val<Tk> = Val(Tk::new(900 + g));

        let next = move || -> u64 {
            let p = if racy {
                let p = counter.load(Ordering::SeqCst);
                for _ in 0..200 { std::hint::spin_loop(); }
                counter.store(p + 1, Ordering::SeqCst);
                p
            } else {
                counter.fetch_add(1, Ordering::SeqCst)
            };
            CL_LOG.with(|l| l.borrow_mut().push((g, p)));
            p
        };
    })
    .expect("registration of the C12 library must succeed")
}

/// The function shapes of spec/Conc.tla (operator F) with the module constants K, C, KT.
fn script(k: u64, c: u64, kt: u64) -> String {
    format!(
        r#"
const C: u64 = {c};
const KT: Tk = mk({kt});

fn arith(x: u64, y: u64) -> u64 {{
    x * {k} + y + C
}}

fn slen(x: u64, y: u64) -> u64 {{
    let s = "ab".repeat(x).append("c".repeat(y));
    s.chars().len() + C
}}

fn lsum(x: u64, y: u64) -> u64 {{
    let l = [x, y, C];
    l.push(x * {k});
    let total = 0;
    for e in l {{
        total = total + e;
    }}
    total
}}

fn bump(x: u64, y: u64) -> u64 {{
    next() * 1000 + x + y
}}

fn bump2(x: u64, y: u64) -> u64 {{
    let a = next();
    let b = next();
    a * 1000 + b
}}

fn ktag(x: u64, y: u64) -> u64 {{
    tag(KT) * 10 + tag(RC) + x
}}

record Wide {{ f0: u64, f1: u64, f2: u64, f3: u64, f4: u64, f5: u64, f6: u64, f7: u64, f8: u64, f9: u64, f10: u64, f11: u64, f12: u64, f13: u64, f14: u64, f15: u64, f16: u64, f17: u64, f18: u64, f19: u64, f20: u64, f21: u64, f22: u64, f23: u64, f24: u64, f25: u64, f26: u64, f27: u64, f28: u64, f29: u64, f30: u64, f31: u64, f32: u64, f33: u64, f34: u64, f35: u64, f36: u64, f37: u64, f38: u64, f39: u64 }}

fn mkwide(x: u64, y: u64) -> Wide {{
    Wide {{ f0: x + 0 * y, f1: x + 1 * y, f2: x + 2 * y, f3: x + 3 * y, f4: x + 4 * y, f5: x + 5 * y, f6: x + 6 * y, f7: x + 7 * y, f8: x + 8 * y, f9: x + 9 * y, f10: x + 10 * y, f11: x + 11 * y, f12: x + 12 * y, f13: x + 13 * y, f14: x + 14 * y, f15: x + 15 * y, f16: x + 16 * y, f17: x + 17 * y, f18: x + 18 * y, f19: x + 19 * y, f20: x + 20 * y, f21: x + 21 * y, f22: x + 22 * y, f23: x + 23 * y, f24: x + 24 * y, f25: x + 25 * y, f26: x + 26 * y, f27: x + 27 * y, f28: x + 28 * y, f29: x + 29 * y, f30: x + 30 * y, f31: x + 31 * y, f32: x + 32 * y, f33: x + 33 * y, f34: x + 34 * y, f35: x + 35 * y, f36: x + 36 * y, f37: x + 37 * y, f38: x + 38 * y, f39: x + 39 * y }}
}}

fn wsum(w: Wide) -> u64 {{
    w.f0 + w.f1 + w.f2 + w.f3 + w.f4 + w.f5 + w.f6 + w.f7 + w.f8 + w.f9 + w.f10 + w.f11 + w.f12 + w.f13 + w.f14 + w.f15 + w.f16 + w.f17 + w.f18 + w.f19 + w.f20 + w.f21 + w.f22 + w.f23 + w.f24 + w.f25 + w.f26 + w.f27 + w.f28 + w.f29 + w.f30 + w.f31 + w.f32 + w.f33 + w.f34 + w.f35 + w.f36 + w.f37 + w.f38 + w.f39
}}

fn wide(x: u64, y: u64) -> u64 {{
    let w = mkwide(x, y);
    let l = [x, y, x];
    let t = 0;
    for e in l {{
        t = t + e;
    }}
    let v = mkwide(t, 0);
    wsum(w) + C + v.f7 - t
}}

fn keep(t: Tk, y: u64) -> Tk {{
    let u = mk(y + C);
    if tag(u) > tag(t) {{ u }} else {{ t }}
}}
"#
    )
}

type F2 = TypedFunc<NoCtx, fn(u64, u64) -> u64>;
type FK = TypedFunc<NoCtx, fn(Val<Tk>, u64) -> Val<Tk>>;

/// One handle per function of a module; cloned / sent / dropped as a unit (the
/// specification counts bundles).
#[derive(Clone)]
struct Bundle {
    arith: F2,
    slen: F2,
    lsum: F2,
    bump: F2,
    bump2: F2,
    ktag: F2,
    wide: F2,
    keep: FK,
}

fn get_bundle(pkg: &mut Package<NoCtx>) -> Bundle {
    let f2 = |pkg: &mut Package<NoCtx>, name: &str| -> F2 {
        pkg.get_function::<fn(u64, u64) -> u64>(name)
            .unwrap_or_else(|e| panic!("get_function {name}: {e:?}"))
    };
    Bundle {
        arith: f2(pkg, "arith"),
        slen: f2(pkg, "slen"),
        lsum: f2(pkg, "lsum"),
        bump: f2(pkg, "bump"),
        bump2: f2(pkg, "bump2"),
        ktag: f2(pkg, "ktag"),
        wide: f2(pkg, "wide"),
        keep: pkg
            .get_function::<fn(Val<Tk>, u64) -> Val<Tk>>("keep")
            .unwrap_or_else(|e| panic!("get_function keep: {e:?}")),
    }
}

// ------------------------------------------------------------------ small deterministic rng

struct Rng(u64);
impl Rng {
    fn next(&mut self) -> u64 {
        self.0 = self.0.wrapping_add(0x9E37_79B9_7F4A_7C15);
        let mut z = self.0;
        z = (z ^ (z >> 30)).wrapping_mul(0xBF58_476D_1CE4_E5B9);
        z = (z ^ (z >> 27)).wrapping_mul(0x94D0_49BB_1331_11EB);
        z ^ (z >> 31)
    }
    fn below(&mut self, n: u64) -> u64 {
        self.next() % n
    }
}

// ------------------------------------------------------------------ per-thread recording

#[derive(Clone, Copy, PartialEq)]
enum Kind {
    Call,
    Compile,
    DropPkg,
    DropHandles,
    Other,
}

struct ThreadLog {
    ev: Vec<Value>,
    /// (kind, begin ns, end ns) since the start of the run
    iv: Vec<(Kind, u64, u64)>,
    t0: Instant,
}

impl ThreadLog {
    fn new(t0: Instant) -> Self {
        ThreadLog { ev: vec![], iv: vec![], t0 }
    }
    fn now(&self) -> u64 {
        self.t0.elapsed().as_nanos() as u64
    }
    /// run `f`, then log `ev` with the interval it took
    fn timed<R>(&mut self, kind: Kind, f: impl FnOnce() -> R) -> R {
        let b = self.now();
        let r = f();
        let e = self.now();
        self.iv.push((kind, b, e));
        r
    }
    fn push(&mut self, v: Value) {
        self.ev.push(v);
    }
}

/// Busy-waiting rendezvous: everybody leaves within a fraction of a microsecond, so that
/// what follows (a burst of calls on some threads, drops on others) really overlaps.
struct SpinGate {
    want: usize,
    arrived: AtomicUsize,
}

impl SpinGate {
    fn new(want: usize) -> Self {
        SpinGate { want, arrived: AtomicUsize::new(0) }
    }
    fn wait(&self, failed: &AtomicBool) {
        self.arrived.fetch_add(1, Ordering::SeqCst);
        let start = Instant::now();
        let mut spins = 0u64;
        while self.arrived.load(Ordering::SeqCst) < self.want {
            std::hint::spin_loop();
            spins += 1;
            if spins % 2048 == 0 {
                std::thread::yield_now();
                if failed.load(Ordering::SeqCst) {
                    panic!("another thread of the run failed");
                }
                if start.elapsed() > Duration::from_secs(120) {
                    panic!("harness: rendezvous not reached within 120 s");
                }
            }
        }
    }
}

/// Perform one call through the bundle `b` of module `m` and log call_begin / cl* / call_end.
fn do_call(log: &mut ThreadLog, b: &Bundle, m: u64, shape: &str, x: u64, y: u64) {
    log.push(json!({"op": "call_begin", "m": m, "fn": shape, "x": x, "y": y}));
    CL_LOG.with(|l| l.borrow_mut().clear());
    let res = log.timed(Kind::Call, || match shape {
        "arith" => b.arith.call(x, y),
        "slen" => b.slen.call(x, y),
        "lsum" => b.lsum.call(x, y),
        "bump" => b.bump.call(x, y),
        "bump2" => b.bump2.call(x, y),
        "ktag" => b.ktag.call(x, y),
        "wide" => b.wide.call(x, y),
        "keep" => {
            let r = b.keep.call(Val(Tk::new(x)), y);
            if r.0.valid() { r.0.tag } else { CORRUPT.fetch_add(1, Ordering::SeqCst); 77777 }
            // r dropped here
        }
        other => panic!("harness: unknown shape {other}"),
    });
    let cls: Vec<(u64, u64)> = CL_LOG.with(|l| std::mem::take(&mut *l.borrow_mut()));
    for (g, p) in cls {
        log.push(json!({"op": "cl", "g": g, "prev": p}));
    }
    log.push(json!({"op": "call_end", "res": res}));
}

fn pick_call(rng: &mut Rng) -> (&'static str, u64, u64) {
    // weights: arith 3, slen 2, lsum 2, bump 4, bump2 1, ktag 2, wide 3, keep 2
    let shape = match rng.below(19) {
        0..=2 => "arith",
        3..=4 => "slen",
        5..=6 => "lsum",
        7..=10 => "bump",
        11 => "bump2",
        12..=13 => "ktag",
        14..=16 => "wide",
        _ => "keep",
    };
    let (x, y) = match shape {
        "slen" => (rng.below(40), rng.below(40)),
        _ => (rng.below(400), rng.below(400)),
    };
    (shape, x, y)
}

struct Shared<'a> {
    failed: &'a AtomicBool,
    start: &'a SpinGate,
    burst: &'a SpinGate,
}

fn worker(t: u64, bundle: Bundle, m1: u64, m2: u64, pace_us: u64, seed: u64, t0: Instant, sh: &Shared) -> ThreadLog {
    let mut log = ThreadLog::new(t0);
    let mut rng = Rng(seed ^ (t.wrapping_mul(0x1234_5678_9ABC_DEF1)));
    sh.start.wait(sh.failed);
    for _ in 0..m1 {
        let (s, x, y) = pick_call(&mut rng);
        do_call(&mut log, &bundle, 1, s, x, y);
        if pace_us > 0 {
            std::thread::sleep(Duration::from_micros(pace_us));
        }
    }
    sh.burst.wait(sh.failed);
    for _ in 0..m2 {
        let (s, x, y) = pick_call(&mut rng);
        do_call(&mut log, &bundle, 1, s, x, y);
    }
    log.timed(Kind::DropHandles, || drop(bundle));
    log.push(json!({"op": "drop_handles", "m": 1}));
    log
}

fn compile_module(log: &mut ThreadLog, rt: &Runtime<NoCtx>, m: u64, g: u64, rng: &mut Rng) -> Package<NoCtx> {
    let (k, c, kt) = (1 + rng.below(9), rng.below(500), rng.below(90));
    log.push(json!({"op": "compile_begin", "m": m, "g": g, "k": k, "c": c, "kt": kt}));
    let pkg = log.timed(Kind::Compile, || {
        FileTree::test_file("c12.roto", &script(k, c, kt), 0)
            .compile(rt)
            .map_err(|e| e.to_string())
            .expect("C12 script must compile")
    });
    log.push(json!({"op": "compile_end", "m": m}));
    pkg
}

fn get_logged(log: &mut ThreadLog, pkg: &mut Package<NoCtx>, m: u64) -> Bundle {
    let b = log.timed(Kind::Other, || get_bundle(pkg));
    log.push(json!({"op": "get", "m": m}));
    b
}

fn drop_pkg_logged(log: &mut ThreadLog, pkg: Package<NoCtx>, m: u64) {
    log.timed(Kind::DropPkg, || drop(pkg));
    log.push(json!({"op": "drop_pkg", "m": m}));
}

fn drop_handles_logged(log: &mut ThreadLog, b: Bundle, m: u64) {
    log.timed(Kind::DropHandles, || drop(b));
    log.push(json!({"op": "drop_handles", "m": m}));
}

/// compile, get, a few calls, release in either order (with a call in between)
fn full_cycle(log: &mut ThreadLog, rt: &Runtime<NoCtx>, m: u64, g: u64, rng: &mut Rng) {
    let mut pkg = compile_module(log, rt, m, g, rng);
    let b = get_logged(log, &mut pkg, m);
    for _ in 0..2 {
        let (s, x, y) = pick_call(rng);
        do_call(log, &b, m, s, x, y);
    }
    if rng.below(2) == 0 {
        drop_pkg_logged(log, pkg, m);
        let (s, x, y) = pick_call(rng);
        do_call(log, &b, m, s, x, y);
        drop_handles_logged(log, b, m);
    } else {
        let b2 = b.clone();
        drop(b2); // a clone that comes and goes within this thread is not a bundle of its own
        drop_handles_logged(log, b, m);
        drop_pkg_logged(log, pkg, m);
    }
}

#[allow(clippy::too_many_arguments)]
fn background(
    idx: u64,
    shared_rt: Option<&Runtime<NoCtx>>,
    c1: u64,
    c2: u64,
    seed: u64,
    racy: bool,
    t0: Instant,
    sh: &Shared,
) -> (ThreadLog, Option<(u64, Arc<AtomicU64>)>) {
    let mut log = ThreadLog::new(t0);
    let mut rng = Rng(seed ^ ((idx + 77).wrapping_mul(0x0F0F_1234_5678_9ABC)));
    sh.start.wait(sh.failed);
    let mut own_counter = None;
    let own_rt;
    let (rt, g): (&Runtime<NoCtx>, u64) = match shared_rt {
        Some(rt) => (rt, 1),
        None => {
            let g = 2 + idx;
            let counter = Arc::new(AtomicU64::new(0));
            own_counter = Some((g, counter.clone()));
            own_rt = log.timed(Kind::Other, || build_runtime(g, counter, racy));
            log.push(json!({"op": "build_rt", "g": g, "sync": true}));
            (&own_rt, g)
        }
    };
    let mut next_m = 100 * (idx + 1);
    for _ in 0..c1 {
        next_m += 1;
        full_cycle(&mut log, rt, next_m, g, &mut rng);
    }
    next_m += 1;
    let m = next_m;
    let mut pkg = compile_module(&mut log, rt, m, g, &mut rng);
    let b = get_logged(&mut log, &mut pkg, m);
    sh.burst.wait(sh.failed);
    drop_pkg_logged(&mut log, pkg, m);
    let (s, x, y) = pick_call(&mut rng);
    do_call(&mut log, &b, m, s, x, y);
    drop_handles_logged(&mut log, b, m);
    for _ in 0..c2 {
        next_m += 1;
        full_cycle(&mut log, rt, next_m, g, &mut rng);
    }
    if shared_rt.is_none() {
        // the thread's own Runtime goes out of scope at the end of this function
        log.push(json!({"op": "drop_rt", "g": g}));
    }
    (log, own_counter)
}

fn overlaps(a: (u64, u64), b: (u64, u64)) -> bool {
    a.0 < b.1 && b.0 < a.1
}

fn run_case(case: &Value, prog: &Progress) -> Value {
    let n = case["n"].as_u64().expect("n");
    let m1 = case["m1"].as_u64().expect("m1");
    let m2 = case["m2"].as_u64().expect("m2");
    let own: Vec<bool> = case["own"].as_array().expect("own").iter().map(|v| v.as_bool().unwrap()).collect();
    let nbg = own.len() as u64;
    let c1 = case["c1"].as_u64().unwrap_or(1);
    let c2 = case["c2"].as_u64().unwrap_or(1);
    let pace_us = case["pace_us"].as_u64().unwrap_or(0);
    let seed = case["seed"].as_u64().unwrap_or(1);
    let racy = case["racy"].as_bool().unwrap_or(false);

    let base = (
        LIVE.load(Ordering::SeqCst),
        CREATED.load(Ordering::SeqCst),
        CLONED.load(Ordering::SeqCst),
        DROPPED.load(Ordering::SeqCst),
        CORRUPT.load(Ordering::SeqCst),
    );
    let t0 = Instant::now();
    let mut main = ThreadLog::new(t0);
    let mut rng = Rng(seed);
    prog.step(0);

    let counter = Arc::new(AtomicU64::new(0));
    let rt = main.timed(Kind::Other, || build_runtime(1, counter.clone(), racy));
    main.push(json!({"op": "build_rt", "g": 1, "sync": true}));
    let mut pkg = compile_module(&mut main, &rt, 1, 1, &mut rng);
    let bundle = get_logged(&mut main, &mut pkg, 1);

    let failed = AtomicBool::new(false);
    let nthreads = (1 + n + nbg) as usize;
    let start = SpinGate::new(nthreads);
    let burst = SpinGate::new(nthreads);
    let sh = Shared { failed: &failed, start: &start, burst: &burst };
    let rt_ref = &rt;
    let sh_ref = &sh;

    prog.step(1);
    let mut logs: Vec<ThreadLog> = vec![];
    let mut counters: Vec<(u64, Arc<AtomicU64>)> = vec![(1, counter.clone())];
    let mut failures: Vec<String> = vec![];
    std::thread::scope(|s| {
        let mut workers = vec![];
        for w in 0..n {
            let t = 2 + w;
            let b = bundle.clone();
            main.push(json!({"op": "spawn", "t": t, "ms": [1]}));
            // even-numbered worker threads are paced, odd ones call back to back
            let pace = if t % 2 == 0 { pace_us } else { 0 };
            workers.push(s.spawn(move || {
                let r = std::panic::catch_unwind(std::panic::AssertUnwindSafe(|| {
                    worker(t, b, m1, m2, pace, seed, t0, sh_ref)
                }));
                if r.is_err() {
                    sh_ref.failed.store(true, Ordering::SeqCst);
                }
                r
            }));
        }
        let mut bgs = vec![];
        for (i, o) in own.iter().enumerate() {
            let t = 2 + n + i as u64;
            main.push(json!({"op": "spawn", "t": t, "ms": []}));
            let shared_rt = if *o { None } else { Some(rt_ref) };
            bgs.push(s.spawn(move || {
                let r = std::panic::catch_unwind(std::panic::AssertUnwindSafe(|| {
                    background(i as u64, shared_rt, c1, c2, seed, racy, t0, sh_ref)
                }));
                if r.is_err() {
                    sh_ref.failed.store(true, Ordering::SeqCst);
                }
                r
            }));
        }
        // the main thread takes part in both rendezvous and releases its own holders of
        // module 1 while the workers are in their burst
        let r = std::panic::catch_unwind(std::panic::AssertUnwindSafe(|| {
            sh.start.wait(sh.failed);
            prog.step(2);
            sh.burst.wait(sh.failed);
        }));
        if let Err(e) = r {
            failed.store(true, Ordering::SeqCst);
            failures.push(format!("main: {}", rvh::util::panic_message(&e)));
        }
        drop_pkg_logged(&mut main, pkg, 1);
        drop_handles_logged(&mut main, bundle, 1);
        prog.step(3);
        for (k, h) in workers.into_iter().enumerate() {
            match h.join() {
                Ok(Ok(l)) => logs.push(l),
                Ok(Err(e)) => {
                    failures.push(format!("worker {}: {}", 2 + k, rvh::util::panic_message(&e)));
                }
                Err(e) => {
                    failures.push(format!("worker {}: {}", 2 + k, rvh::util::panic_message(&e)));
                }
            }
        }
        for (k, h) in bgs.into_iter().enumerate() {
            match h.join() {
                Ok(Ok((l, c))) => {
                    logs.push(l);
                    if let Some(c) = c {
                        counters.push(c);
                    }
                }
                Ok(Err(e)) => {
                    failures.push(format!("background {}: {}", k, rvh::util::panic_message(&e)));
                }
                Err(e) => {
                    failures.push(format!("background {}: {}", k, rvh::util::panic_message(&e)));
                }
            }
        }
    });
    if !failures.is_empty() {
        // the root cause, not the threads that gave up because of it
        let msg = failures
            .iter()
            .find(|m| !m.contains("another thread of the run failed"))
            .unwrap_or(&failures[0]);
        panic!("{msg}");
    }
    prog.step(4);
    main.push(json!({"op": "join"}));
    main.timed(Kind::Other, || drop(rt));
    main.push(json!({"op": "drop_rt", "g": 1}));
    let cnt: Vec<Value> = counters.iter().map(|(g, c)| json!([g, c.load(Ordering::SeqCst)])).collect();
    main.push(json!({
        "op": "quiesce",
        "cnt": cnt,
        "live": LIVE.load(Ordering::SeqCst) - base.0,
        "created": CREATED.load(Ordering::SeqCst) - base.1,
        "cloned": CLONED.load(Ordering::SeqCst) - base.2,
        "dropped": DROPPED.load(Ordering::SeqCst) - base.3,
        "corrupt": CORRUPT.load(Ordering::SeqCst) - base.4,
    }));

    // ---- evidence only: how often did compilations / releases overlap calls of other threads
    let mut all: Vec<&ThreadLog> = vec![&main];
    all.extend(logs.iter());
    let mut calls_during_compile = 0u64;
    let mut calls_during_release = 0u64;
    let mut releases_during_call = 0u64;
    let mut compiles_during_compile = 0u64;
    let mut calls_during_call = 0u64;
    for (i, a) in all.iter().enumerate() {
        for &(ka, ab, ae) in &a.iv {
            let mut hit_compile = false;
            let mut hit_release = false;
            let mut hit_call = false;
            for (j, b) in all.iter().enumerate() {
                if i == j {
                    continue;
                }
                for &(kb, bb, be) in &b.iv {
                    if !overlaps((ab, ae), (bb, be)) {
                        continue;
                    }
                    match kb {
                        Kind::Compile => hit_compile = true,
                        Kind::DropPkg | Kind::DropHandles => hit_release = true,
                        Kind::Call => hit_call = true,
                        Kind::Other => {}
                    }
                }
            }
            match ka {
                Kind::Call => {
                    calls_during_compile += hit_compile as u64;
                    calls_during_release += hit_release as u64;
                    calls_during_call += hit_call as u64;
                }
                Kind::Compile => compiles_during_compile += hit_compile as u64,
                Kind::DropPkg | Kind::DropHandles => releases_during_call += hit_call as u64,
                Kind::Other => {}
            }
        }
    }
    let thr: Vec<Value> = all.iter().map(|l| Value::Array(l.ev.clone())).collect();
    let ncalls: usize = all.iter().map(|l| l.iv.iter().filter(|x| x.0 == Kind::Call).count()).sum();
    json!({
        "thr": thr,
        "overlap": {
            "calls": ncalls,
            "calls_overlapping_a_compilation": calls_during_compile,
            "calls_overlapping_a_release": calls_during_release,
            "calls_overlapping_a_call": calls_during_call,
            "releases_overlapping_a_call": releases_during_call,
            "compilations_overlapping_a_compilation": compiles_during_compile,
        },
        "wall_us": t0.elapsed().as_micros() as u64,
    })
}

fn main() {
    let args = parse_args();
    run_batch(&args, run_case);
}
