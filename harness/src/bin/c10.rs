//! C10 driver: execute ONE point of the NoCrash call domain per batch case.
//!
//! A case names a compiled script (many functions, one per point or per
//! operator), the function to call, the entry signature class and the
//! argument values:
//!
//! ```json
//! {"script": "/verif/work/C10/scripts/op_i32.roto", "fn": "a_div", "entry": "bin", "ty": "i32",
//!  "args": ["-2147483648", "-1"], "ins": []}
//! {"script": ".../bi_3.roto", "fn": "p17", "entry": "unit", "ty": "",
//!  "args": [], "ins": [{"t": "str", "v": "abc"}, {"t": "u64", "v": "18446744073709551615"}]}
//! ```
//!
//! * operator points: the operands are real arguments of a typed entry point
//!   (`fn(T, T) -> T`, `fn(T, T) -> bool`, `fn(T) -> T`), or the function takes
//!   no arguments and contains the operands as literals (`fn() -> T`,
//!   `fn() -> bool`);
//! * built-in points: entry `fn()`; the script fetches its arguments with the
//!   host functions `in_<type>(k)` (the k-th element of `ins`, so nothing is
//!   known at compile time) or contains them as literals, and hands every
//!   result to a host sink `out_<type>(v)` so that the returned value is
//!   materialised and read.  Lists come in every element type of NoCrash.ElemSize that the host
//!   can make (`in_list_unit` .. `in_list_list_u64`; zero-sized, 1 / 2 / 4 / 8 bytes, String,
//!   optional, nested); records are built by the script from host-provided fields.
//!
//! The driver computes no expectation.  Its result line only says that the call
//! returned (plus the sunk values, for the reader).  A trap / abort kills this
//! worker; the python side records `crash: signal:N` for the case and restarts
//! the worker after it.  Scripts are compiled lazily, once per worker, in the
//! default runtime (`Runtime::new()` + `add_io_functions`) plus the providers
//! and sinks.
use std::collections::HashMap;
use std::net::IpAddr;
use std::sync::Mutex;

use inetnum::addr::Prefix;
use inetnum::asn::Asn;
use roto::{FileTree, List, NoCtx, Package, RotoString, Runtime, library};
use rvh::batch::{Progress, parse_args, run_batch};
use serde_json::{Value, json};

static INS: Mutex<Vec<Value>> = Mutex::new(Vec::new());
static OUT: Mutex<Vec<String>> = Mutex::new(Vec::new());

fn arg(k: u32, t: &str) -> Value {
    let ins = INS.lock().unwrap();
    let a = ins.get(k as usize).unwrap_or_else(|| panic!("c10 harness: no input {k}"));
    assert_eq!(a["t"].as_str().unwrap(), t, "c10 harness: input {k} has another type");
    a["v"].clone()
}

fn sval(v: &Value) -> &str {
    v.as_str().expect("c10 harness: value must be a string")
}

fn sink(s: String) {
    let mut o = OUT.lock().unwrap();
    if o.len() < 64 {
        let mut s = s;
        if s.len() > 120 {
            let mut cut = 120;
            while !s.is_char_boundary(cut) {
                cut -= 1;
            }
            s.truncate(cut);
            s.push_str("...");
        }
        o.push(s);
    }
}

macro_rules! parse_num {
    ($t:ty, $s:expr) => {
        $s.parse::<$t>().unwrap_or_else(|e| panic!("c10 harness: bad {} literal {:?}: {e}", stringify!($t), $s))
    };
}

fn f32_of(s: &str) -> f32 {
    f32::from_bits(parse_num!(u32, s))
}
fn f64_of(s: &str) -> f64 {
    f64::from_bits(parse_num!(u64, s))
}
fn char_of(s: &str) -> char {
    char::from_u32(parse_num!(u32, s)).expect("c10 harness: not a scalar value")
}
fn pfx_of(v: &Value) -> Prefix {
    let ip: IpAddr = sval(&v["ip"]).parse().expect("c10 harness: ip");
    Prefix::new_relaxed(ip, v["len"].as_u64().unwrap() as u8).expect("c10 harness: prefix")
}

fn unit_of(v: &Value) {
    assert_eq!(sval(v), "()", "c10 harness: not a unit value");
}
fn opt_u64_of(v: &Value) -> Option<u64> {
    if v.is_null() { None } else { Some(parse_num!(u64, sval(v))) }
}
fn list_u64_of(v: &Value) -> List<u64> {
    v.as_array().expect("c10 harness: list").iter().map(|x| parse_num!(u64, sval(x))).collect::<Vec<u64>>().into()
}

fn strip_ansi(s: &str) -> String {
    let mut out = String::new();
    let mut it = s.chars();
    while let Some(c) = it.next() {
        if c == '\u{1b}' {
            for d in it.by_ref() {
                if d.is_ascii_alphabetic() {
                    break;
                }
            }
        } else {
            out.push(c);
        }
    }
    out
}

fn runtime() -> Runtime<NoCtx> {
    let mut rt = Runtime::new();
    rt.add_io_functions();
    rt.add(library! {
        fn in_u8(k: u32) -> u8 { parse_num!(u8, sval(&arg(k, "u8"))) }
        fn in_u16(k: u32) -> u16 { parse_num!(u16, sval(&arg(k, "u16"))) }
        fn in_u32(k: u32) -> u32 { parse_num!(u32, sval(&arg(k, "u32"))) }
        fn in_u64(k: u32) -> u64 { parse_num!(u64, sval(&arg(k, "u64"))) }
        fn in_i8(k: u32) -> i8 { parse_num!(i8, sval(&arg(k, "i8"))) }
        fn in_i16(k: u32) -> i16 { parse_num!(i16, sval(&arg(k, "i16"))) }
        fn in_i32(k: u32) -> i32 { parse_num!(i32, sval(&arg(k, "i32"))) }
        fn in_i64(k: u32) -> i64 { parse_num!(i64, sval(&arg(k, "i64"))) }
        fn in_f32(k: u32) -> f32 { f32_of(sval(&arg(k, "f32"))) }
        fn in_f64(k: u32) -> f64 { f64_of(sval(&arg(k, "f64"))) }
        fn in_bool(k: u32) -> bool { arg(k, "bool").as_bool().unwrap() }
        fn in_char(k: u32) -> char { char_of(sval(&arg(k, "char"))) }
        fn in_str(k: u32) -> RotoString { RotoString::from(sval(&arg(k, "str"))) }
        fn in_ip(k: u32) -> IpAddr { sval(&arg(k, "ip")).parse().expect("c10 harness: ip") }
        fn in_pfx(k: u32) -> Prefix { pfx_of(&arg(k, "pfx")) }
        fn in_asn(k: u32) -> Asn { Asn::from_u32(parse_num!(u32, sval(&arg(k, "asn")))) }
        fn in_list_u8(k: u32) -> List<u8> {
            arg(k, "list_u8").as_array().unwrap().iter().map(|x| parse_num!(u8, sval(x))).collect::<Vec<u8>>().into()
        }
        fn in_list_u64(k: u32) -> List<u64> {
            arg(k, "list_u64").as_array().unwrap().iter().map(|x| parse_num!(u64, sval(x))).collect::<Vec<u64>>().into()
        }
        fn in_list_char(k: u32) -> List<char> {
            arg(k, "list_char").as_array().unwrap().iter().map(|x| char_of(sval(x))).collect::<Vec<char>>().into()
        }
        fn in_list_str(k: u32) -> List<RotoString> {
            arg(k, "list_str").as_array().unwrap().iter().map(|x| RotoString::from(sval(x))).collect::<Vec<RotoString>>().into()
        }
        // the element-type dimension of List[T] (NoCrash.ElemSize): zero-sized, 2 and 4 byte elements,
        // nested lists and optional elements.  Records cannot be made by the host: the scripts build
        // them from host-provided fields.
        fn in_unit(k: u32) { unit_of(&arg(k, "unit")) }
        fn in_opt_u64(k: u32) -> Option<u64> { opt_u64_of(&arg(k, "opt_u64")) }
        fn in_list_unit(k: u32) -> List<()> {
            arg(k, "list_unit").as_array().unwrap().iter().map(unit_of).collect::<Vec<()>>().into()
        }
        fn in_list_u16(k: u32) -> List<u16> {
            arg(k, "list_u16").as_array().unwrap().iter().map(|x| parse_num!(u16, sval(x))).collect::<Vec<u16>>().into()
        }
        fn in_list_u32(k: u32) -> List<u32> {
            arg(k, "list_u32").as_array().unwrap().iter().map(|x| parse_num!(u32, sval(x))).collect::<Vec<u32>>().into()
        }
        fn in_list_opt_u64(k: u32) -> List<Option<u64>> {
            arg(k, "list_opt_u64").as_array().unwrap().iter().map(opt_u64_of).collect::<Vec<Option<u64>>>().into()
        }
        fn in_list_list_u64(k: u32) -> List<List<u64>> {
            arg(k, "list_list_u64").as_array().unwrap().iter().map(list_u64_of).collect::<Vec<List<u64>>>().into()
        }

        fn out_u8(v: u8) { sink(v.to_string()) }
        fn out_u16(v: u16) { sink(v.to_string()) }
        fn out_u32(v: u32) { sink(v.to_string()) }
        fn out_u64(v: u64) { sink(v.to_string()) }
        fn out_i8(v: i8) { sink(v.to_string()) }
        fn out_i16(v: i16) { sink(v.to_string()) }
        fn out_i32(v: i32) { sink(v.to_string()) }
        fn out_i64(v: i64) { sink(v.to_string()) }
        fn out_f32(v: f32) { sink(format!("{v:?}")) }
        fn out_f64(v: f64) { sink(format!("{v:?}")) }
        fn out_bool(v: bool) { sink(v.to_string()) }
        fn out_char(v: char) { sink(format!("{v:?}")) }
        fn out_str(v: RotoString) { sink(format!("{:?}", &*v)) }
        fn out_ip(v: IpAddr) { sink(v.to_string()) }
        fn out_pfx(v: Prefix) { sink(v.to_string()) }
        fn out_asn(v: Asn) { sink(v.to_string()) }
        fn out_none() { sink("None".to_string()) }
        fn out_unit(_v: ()) { sink("()".to_string()) }
    })
    .expect("c10 harness: providers and sinks register");
    rt
}

macro_rules! int_entry {
    ($t:ty, $pkg:expr, $name:expr, $entry:expr, $args:expr) => {{
        let a = |k: usize| -> $t { parse_num!($t, $args[k].as_str().unwrap()) };
        match $entry {
            "bin" => $pkg.get_function::<fn($t, $t) -> $t>($name).map(|f| f.call(a(0), a(1)).to_string()),
            "cmp" => $pkg.get_function::<fn($t, $t) -> bool>($name).map(|f| f.call(a(0), a(1)).to_string()),
            "un" => $pkg.get_function::<fn($t) -> $t>($name).map(|f| f.call(a(0)).to_string()),
            "nul" => $pkg.get_function::<fn() -> $t>($name).map(|f| f.call().to_string()),
            e => panic!("c10 harness: unknown entry {e}"),
        }
    }};
}

macro_rules! float_entry {
    ($t:ty, $of:ident, $pkg:expr, $name:expr, $entry:expr, $args:expr) => {{
        let a = |k: usize| -> $t { $of($args[k].as_str().unwrap()) };
        match $entry {
            "bin" => $pkg.get_function::<fn($t, $t) -> $t>($name).map(|f| format!("{:?}", f.call(a(0), a(1)))),
            "cmp" => $pkg.get_function::<fn($t, $t) -> bool>($name).map(|f| f.call(a(0), a(1)).to_string()),
            "un" => $pkg.get_function::<fn($t) -> $t>($name).map(|f| format!("{:?}", f.call(a(0)))),
            "nul" => $pkg.get_function::<fn() -> $t>($name).map(|f| format!("{:?}", f.call())),
            e => panic!("c10 harness: unknown entry {e}"),
        }
    }};
}

fn main() {
    let args = parse_args();
    let rt = runtime();
    let mut pkgs: HashMap<String, Package<NoCtx>> = HashMap::new();
    let mut hooked = false;
    run_batch(&args, |case: &Value, prog: &Progress| -> Value {
        if !hooked {
            // a panic inside a built-in cannot unwind through the extern "C" trampoline: the
            // process aborts.  Leave the panic location on stderr for the crash record.
            std::panic::set_hook(Box::new(|info| {
                let loc = info.location().map(|l| format!("{}:{}", l.file(), l.line())).unwrap_or_default();
                let msg = info
                    .payload()
                    .downcast_ref::<&str>()
                    .map(|s| s.to_string())
                    .or_else(|| info.payload().downcast_ref::<String>().cloned())
                    .unwrap_or_default();
                eprintln!("PANIC-AT {loc}: {}", msg.chars().take(160).collect::<String>());
            }));
            hooked = true;
        }
        let path = case["script"].as_str().unwrap();
        prog.step(0);
        if !pkgs.contains_key(path) {
            let src = std::fs::read_to_string(path).unwrap_or_else(|e| panic!("c10 harness: read {path}: {e}"));
            match FileTree::test_file(path, &src, 0).compile(&rt) {
                Ok(p) => {
                    pkgs.insert(path.to_string(), p);
                }
                Err(e) => {
                    let text: String = strip_ansi(&e.to_string()).chars().take(1500).collect();
                    return json!({"compile_error": text});
                }
            }
        }
        let pkg = pkgs.get_mut(path).unwrap();
        let name = case["fn"].as_str().unwrap();
        let entry = case["entry"].as_str().unwrap();
        let ty = case["ty"].as_str().unwrap();
        let a = case["args"].as_array().unwrap();
        *INS.lock().unwrap() = case["ins"].as_array().cloned().unwrap_or_default();
        OUT.lock().unwrap().clear();
        prog.step(1);
        let ret: Result<String, _> = if entry == "unit" {
            pkg.get_function::<fn() -> ()>(name).map(|f| {
                f.call();
                "()".to_string()
            })
        } else if entry == "nulb" {
            pkg.get_function::<fn() -> bool>(name).map(|f| f.call().to_string())
        } else {
            match ty {
                "u8" => int_entry!(u8, pkg, name, entry, a),
                "u16" => int_entry!(u16, pkg, name, entry, a),
                "u32" => int_entry!(u32, pkg, name, entry, a),
                "u64" => int_entry!(u64, pkg, name, entry, a),
                "i8" => int_entry!(i8, pkg, name, entry, a),
                "i16" => int_entry!(i16, pkg, name, entry, a),
                "i32" => int_entry!(i32, pkg, name, entry, a),
                "i64" => int_entry!(i64, pkg, name, entry, a),
                "f32" => float_entry!(f32, f32_of, pkg, name, entry, a),
                "f64" => float_entry!(f64, f64_of, pkg, name, entry, a),
                t => panic!("c10 harness: unknown type {t}"),
            }
        };
        prog.step(2);
        match ret {
            Ok(v) => json!({"ret": v, "out": OUT.lock().unwrap().clone()}),
            Err(e) => json!({"entry_error": e.to_string()}),
        }
    });
}
