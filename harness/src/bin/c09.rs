//! C09 driver: source text -> what the real crate makes of it.
//!
//! One case is one script plus a list of zero-argument functions to call:
//!
//!   {"src": "<roto source>",
//!    "fns": [{"n": "<function name>", "t": "<return type>"} ...],
//!    "lex": ["<text>", ...]}                 (optional)
//!
//! and the result is pure observation (no expectation is computed here):
//!
//!   {"compile": "ok" | "err", "kinds": [..], "msg": "<first line of the report>",
//!    "vals": [<value> | {"missing": "<why>"} ...],      (aligned with "fns")
//!    "lex": [[[kind, text, start, end] ...] ...]}        (aligned with "lex", via roto::verif::lex)
//!
//! Value encodings (TLC has neither wide integers nor floats, so nothing is
//! interpreted here):
//!   u8..u64, i8..i64   {"dec": "<decimal string>"}
//!   f32 / f64          {"bits": "<decimal string of the IEEE bit pattern>"}
//!   bool               {"b": true|false}
//!   char               {"cp": <code point>}
//!   String             {"cps": [<code point> ...]}
//!   IpAddr             {"ip": [<octet> ...]}            (4 or 16 octets)
//!   Prefix             {"ip": [<octet> ...], "len": n}
//!   Asn                {"dec": "<decimal string>"}
use std::net::IpAddr;

use inetnum::{addr::Prefix, asn::Asn};
use roto::{FileTree, NoCtx, Package, RotoString, Runtime};
use rvh::batch::{Progress, parse_args, run_batch};
use serde_json::{Value, json};

fn first_line(s: &str) -> String {
    let mut out = String::new();
    let mut it = s.chars().peekable();
    while let Some(c) = it.next() {
        if c == '\u{1b}' {
            for d in it.by_ref() {
                if d.is_ascii_alphabetic() {
                    break;
                }
            }
        } else {
            out.push(c);
        }
    }
    out.lines().map(|l| l.trim()).find(|l| !l.is_empty()).unwrap_or("").chars().take(240).collect()
}

fn ip_json(ip: IpAddr) -> Value {
    match ip {
        IpAddr::V4(a) => json!(a.octets().to_vec()),
        IpAddr::V6(a) => json!(a.octets().to_vec()),
    }
}

macro_rules! call {
    ($pkg:expr, $name:expr, $t:ty, |$v:ident| $enc:expr) => {
        match $pkg.get_function::<fn() -> $t>($name) {
            Ok(f) => {
                let $v: $t = f.call();
                $enc
            }
            Err(e) => json!({"missing": first_line(&e.to_string())}),
        }
    };
}

fn call_fn(pkg: &mut Package<NoCtx>, name: &str, ty: &str) -> Value {
    match ty {
        "u8" => call!(pkg, name, u8, |v| json!({"dec": v.to_string()})),
        "u16" => call!(pkg, name, u16, |v| json!({"dec": v.to_string()})),
        "u32" => call!(pkg, name, u32, |v| json!({"dec": v.to_string()})),
        "u64" => call!(pkg, name, u64, |v| json!({"dec": v.to_string()})),
        "i8" => call!(pkg, name, i8, |v| json!({"dec": v.to_string()})),
        "i16" => call!(pkg, name, i16, |v| json!({"dec": v.to_string()})),
        "i32" => call!(pkg, name, i32, |v| json!({"dec": v.to_string()})),
        "i64" => call!(pkg, name, i64, |v| json!({"dec": v.to_string()})),
        "f32" => call!(pkg, name, f32, |v| json!({"bits": v.to_bits().to_string()})),
        "f64" => call!(pkg, name, f64, |v| json!({"bits": v.to_bits().to_string()})),
        "bool" => call!(pkg, name, bool, |v| json!({"b": v})),
        "char" => call!(pkg, name, char, |v| json!({"cp": v as u32})),
        "String" => call!(pkg, name, RotoString, |v| {
            let s: &str = v.as_ref();
            json!({"cps": s.chars().map(|c| c as u32).collect::<Vec<u32>>()})
        }),
        "IpAddr" => call!(pkg, name, IpAddr, |v| json!({"ip": ip_json(v)})),
        "Prefix" => call!(pkg, name, Prefix, |v| json!({"ip": ip_json(v.addr()), "len": v.len()})),
        "Asn" => call!(pkg, name, Asn, |v| json!({"dec": v.into_u32().to_string()})),
        other => json!({"missing": format!("harness: unknown type {other}")}),
    }
}

fn main() {
    let args = parse_args();
    let rt = Runtime::new();
    run_batch(&args, |case: &Value, prog: &Progress| -> Value {
        let mut res = serde_json::Map::new();
        prog.step(0);
        if let Some(texts) = case["lex"].as_array() {
            let mut all = vec![];
            for t in texts {
                let toks: Vec<Value> = roto::verif::lex(t.as_str().unwrap())
                    .into_iter()
                    .map(|(k, s, a, b)| json!([k, s, a, b]))
                    .collect();
                all.push(Value::from(toks));
            }
            res.insert("lex".into(), Value::from(all));
        }
        prog.step(1);
        if let Some(src) = case["src"].as_str() {
            match FileTree::test_file("c09.roto", src, 0).compile(&rt) {
                Err(e) => {
                    res.insert("compile".into(), json!("err"));
                    res.insert("kinds".into(), json!(roto::verif::report_kinds(&e)));
                    res.insert("msg".into(), json!(first_line(&e.to_string())));
                }
                Ok(mut pkg) => {
                    res.insert("compile".into(), json!("ok"));
                    let mut vals = vec![];
                    for (k, f) in case["fns"].as_array().map(|a| a.as_slice()).unwrap_or(&[]).iter().enumerate() {
                        prog.step(2 + k as i64);
                        vals.push(call_fn(&mut pkg, f["n"].as_str().unwrap(), f["t"].as_str().unwrap()));
                    }
                    res.insert("vals".into(), Value::from(vals));
                }
            }
        }
        Value::Object(res)
    });
}
