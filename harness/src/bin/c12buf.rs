//! C12 (shared StringBufs): imposes BufConc behaviours on the real `StringBuf`.
//!
//! A case is
//! `{init: ["x","x"], threads: n, addrless: 0|1|2, steps: [{t, ctl: "start"|"grant"|"wake", op?, may_block?}]}`.
//! For every case ONE script is compiled afresh: two `StringBuf` constants (evaluated once, at compile
//! time, and shared by every thread that calls into the package) and one tiny function per operation.
//! Worker threads call these functions through cloned function handles.  The cfg-guarded schedule
//! points of src/value/string_buf.rs (`sched::point("buf_acquire", <buffer id>, 0)` before every
//! `Mutex::lock`) call our hook, which parks the worker until the controller grants its next step.
//!
//! The identity of the two buffers is learnt from the real code (a single-threaded `as_string` on
//! each constant reports its id = address of the shared allocation), and so is their address order.
//! `addrless = w` asks for a package in which the specification's buffer `w` has the smaller address:
//! the constants are declared in either order and the script recompiled a few times; if that does not
//! produce the order, the roles of the two constants are swapped (specification buffer 1 = constant B).
//!
//! Per controller step the driver reports what the specification also predicts:
//!   blocked : the thread did not come back (it waits inside Mutex::lock)
//!   parked  : the buffer (1/2, in the specification's numbering) whose lock it is about to take
//!   done/res: whether its operation completed, and the result
use std::cell::{Cell, RefCell};
use std::sync::{Arc, Condvar, Mutex};
use std::time::{Duration, Instant};

use roto::{FileTree, NoCtx, Package, RotoString, Runtime, TypedFunc};
use rvh::batch::{parse_args, run_batch};
use serde_json::{Value, json};

#[derive(Default)]
struct Th {
    cmd: Option<Value>,
    exit: bool,
    granted: bool,
    /// between `start` and the collection of the operation's result
    busy: bool,
    /// let go by the controller (start / grant) and its next stop not yet reported
    running: bool,
    parked: Option<usize>,
    done: Option<Value>,
}

struct Ctl {
    m: Mutex<Vec<Th>>,
    cv: Condvar,
}

thread_local! {
    static ME: RefCell<Option<(Arc<Ctl>, usize)>> = const { RefCell::new(None) };
    static CAPTURING: Cell<bool> = const { Cell::new(false) };
    static CAPTURED: RefCell<Vec<usize>> = const { RefCell::new(Vec::new()) };
}

fn hook(kind: &'static str, a: usize, _b: usize) {
    if kind != "buf_acquire" {
        return;
    }
    if CAPTURING.with(|c| c.get()) {
        CAPTURED.with(|c| c.borrow_mut().push(a));
        return;
    }
    let Some((c, tid)) = ME.with(|m| m.borrow().clone()) else { return };
    let mut st = c.m.lock().unwrap();
    st[tid].parked = Some(a);
    c.cv.notify_all();
    while !st[tid].granted {
        st = c.cv.wait(st).unwrap();
    }
    st[tid].granted = false;
}

type FPushC = TypedFunc<NoCtx, fn(char)>;
type FPushS = TypedFunc<NoCtx, fn(RotoString)>;
type FGet = TypedFunc<NoCtx, fn() -> RotoString>;
type FEq = TypedFunc<NoCtx, fn() -> bool>;

/// function handles, indexed by constant (0 = A, 1 = B)
#[derive(Clone)]
struct Funcs {
    pushc: [FPushC; 2],
    pushs: [FPushS; 2],
    get: [FGet; 2],
    eq: [[FEq; 2]; 2],
}

const NAMES: [&str; 2] = ["a", "b"];

fn script(init: &[String], b_first: bool) -> String {
    let lit = |s: &str| format!("\"{}\"", s.replace('\\', "\\\\").replace('"', "\\\""));
    let ca = format!("const A: StringBuf = StringBuf.from({});\n", lit(&init[0]));
    let cb = format!("const B: StringBuf = StringBuf.from({});\n", lit(&init[1]));
    let mut s = if b_first { format!("{cb}{ca}") } else { format!("{ca}{cb}") };
    for (n, c) in [("a", "A"), ("b", "B")] {
        s += &format!("fn pushc_{n}(c: char) {{ {c}.push_char(c); }}\n");
        s += &format!("fn pushs_{n}(s: String) {{ {c}.push_string(s); }}\n");
        s += &format!("fn get_{n}() -> String {{ {c}.as_string() }}\n");
        for (m, d) in [("a", "A"), ("b", "B")] {
            s += &format!("fn eq_{n}{m}() -> bool {{ {c} == {d} }}\n");
        }
    }
    s
}

fn compile(rt: &Runtime<NoCtx>, init: &[String], b_first: bool) -> (Package<NoCtx>, Funcs) {
    let src = script(init, b_first);
    let mut pkg = FileTree::test_file("c12buf.roto", &src, 0)
        .compile(rt)
        .map_err(|e| e.to_string())
        .unwrap();
    macro_rules! two {
        ($pre:expr) => {
            [
                pkg.get_function(&format!("{}_a", $pre)).map_err(|e| e.to_string()).unwrap(),
                pkg.get_function(&format!("{}_b", $pre)).map_err(|e| e.to_string()).unwrap(),
            ]
        };
    }
    let pushc = two!("pushc");
    let pushs = two!("pushs");
    let get = two!("get");
    let mut eqf = |n: &str| -> FEq { pkg.get_function(n).map_err(|e| e.to_string()).unwrap() };
    let eq = [[eqf("eq_aa"), eqf("eq_ab")], [eqf("eq_ba"), eqf("eq_bb")]];
    (pkg, Funcs { pushc, pushs, get, eq })
}

/// id of constant `ci` as the schedule points of the real code report it
fn learn_id(f: &Funcs, ci: usize) -> usize {
    CAPTURED.with(|c| c.borrow_mut().clear());
    CAPTURING.with(|c| c.set(true));
    let _ = f.get[ci].call();
    CAPTURING.with(|c| c.set(false));
    let ids = CAPTURED.with(|c| c.borrow().clone());
    assert!(
        ids.len() == 1,
        "as_string on constant {} reported {} buf_acquire points (expected exactly one)",
        NAMES[ci],
        ids.len()
    );
    ids[0]
}

/// `role[i]` = the constant that plays the specification's buffer i+1
fn run_op(op: &Value, f: &Funcs, role: [usize; 2]) -> Value {
    let k = op["k"].as_str().unwrap();
    let buf = |name: &str| role[op[name].as_u64().unwrap() as usize - 1];
    match k {
        "PushChar" => {
            let c = op["c"].as_str().unwrap().chars().next().unwrap();
            f.pushc[buf("b")].call(c);
            json!("ok")
        }
        "PushString" => {
            f.pushs[buf("b")].call(RotoString::from(op["s"].as_str().unwrap()));
            json!("ok")
        }
        "AsString" => {
            let s = f.get[buf("b")].call();
            json!(&*s)
        }
        "Eq" => json!(f.eq[buf("a")][buf("b")].call()),
        other => panic!("unknown op {other}"),
    }
}

fn worker(c: Arc<Ctl>, tid: usize, f: Funcs, role: [usize; 2]) {
    ME.with(|m| *m.borrow_mut() = Some((c.clone(), tid)));
    loop {
        let cmd = {
            let mut st = c.m.lock().unwrap();
            loop {
                if st[tid].exit {
                    return;
                }
                if let Some(cmd) = st[tid].cmd.take() {
                    break cmd;
                }
                st = c.cv.wait(st).unwrap();
            }
        };
        let r = std::panic::catch_unwind(std::panic::AssertUnwindSafe(|| run_op(&cmd, &f, role)));
        let v = match r {
            Ok(v) => v,
            Err(e) => json!({"panic": rvh::util::panic_message(&e)}),
        };
        let mut st = c.m.lock().unwrap();
        st[tid].done = Some(v);
        c.cv.notify_all();
    }
}

/// wait until thread `tid` is parked or has finished its operation; None on timeout
fn wait_quiescent(c: &Ctl, tid: usize, limit: Duration) -> Option<(Option<usize>, Option<Value>)> {
    let t0 = Instant::now();
    let mut st = c.m.lock().unwrap();
    loop {
        if st[tid].parked.is_some() || st[tid].done.is_some() {
            let parked = st[tid].parked;
            let done = st[tid].done.take();
            if done.is_some() {
                st[tid].busy = false;
            }
            st[tid].running = false;
            return Some((parked, done));
        }
        let left = limit.checked_sub(t0.elapsed())?;
        let (g, _) = c.cv.wait_timeout(st, left).unwrap();
        st = g;
    }
}

fn run_case(case: &Value, rt: &Runtime<NoCtx>, prog: &rvh::batch::Progress) -> Value {
    let init: Vec<String> = case["init"].as_array().unwrap().iter().map(|s| s.as_str().unwrap().to_string()).collect();
    let want = case["addrless"].as_u64().unwrap_or(0) as usize;
    let nthreads = case["threads"].as_u64().unwrap_or(2) as usize;

    // ---- a fresh package whose two constants lie in the requested address order
    let mut rejected: Vec<(Package<NoCtx>, Funcs)> = vec![];
    let mut chosen = None;
    let mut attempts = 0;
    let first_variant = case["b_first"].as_bool().unwrap_or(want == 2);
    for k in 0..6 {
        attempts += 1;
        let b_first = first_variant ^ (k % 2 == 1);
        let (pkg, f) = compile(rt, &init, b_first);
        let ids = [learn_id(&f, 0), learn_id(&f, 1)];
        assert!(ids[0] != ids[1], "the two constants are one buffer");
        let less = if ids[0] < ids[1] { 1 } else { 2 };
        if want == 0 || less == want {
            chosen = Some((pkg, f, ids, b_first, false));
            break;
        }
        if k == 5 {
            chosen = Some((pkg, f, ids, b_first, true));
        } else {
            // keep it alive so that the allocator cannot hand out the same two blocks again
            rejected.push((pkg, f));
        }
    }
    let (pkg, f, ids, b_first, swapped) = chosen.unwrap();
    drop(rejected);
    let role: [usize; 2] = if swapped { [1, 0] } else { [0, 1] };
    // specification buffer i+1 has id sid[i]
    let sid = [ids[role[0]], ids[role[1]]];
    let addrless = if sid[0] < sid[1] { 1 } else { 2 };
    let spec_buf = |id: usize| sid.iter().position(|x| *x == id).map(|i| i + 1);

    let c = Arc::new(Ctl { m: Mutex::new((0..nthreads).map(|_| Th::default()).collect()), cv: Condvar::new() });
    let mut handles = vec![];
    for tid in 0..nthreads {
        let (c2, f2) = (c.clone(), f.clone());
        handles.push(std::thread::spawn(move || worker(c2, tid, f2, role)));
    }
    let long = Duration::from_millis(case["limit_ms"].as_u64().unwrap_or(6000));
    let short = Duration::from_millis(case["block_ms"].as_u64().unwrap_or(120));
    let mut out = vec![];
    for (k, step) in case["steps"].as_array().unwrap().iter().enumerate() {
        prog.step(k as i64);
        let tid = step["t"].as_u64().unwrap() as usize - 1;
        let ctl = step["ctl"].as_str().unwrap();
        {
            let mut st = c.m.lock().unwrap();
            let th = &mut st[tid];
            let err = match ctl {
                "start" if th.busy => Some("thread is inside an operation, cannot start another"),
                "start" => {
                    th.busy = true;
                    th.running = true;
                    th.cmd = Some(step["op"].clone());
                    None
                }
                "grant" if th.parked.is_none() || th.running => Some("thread is not parked at a schedule point"),
                "grant" => {
                    th.parked = None;
                    th.granted = true;
                    th.running = true;
                    None
                }
                "wake" if !th.running => Some("thread is not running (it was expected to be inside Mutex::lock)"),
                "wake" => None,
                _ => Some("unknown controller step"),
            };
            if let Some(e) = err {
                out.push(json!({"error": e}));
                break;
            }
            c.cv.notify_all();
        }
        let may_block = step["may_block"].as_bool().unwrap_or(false);
        match wait_quiescent(&c, tid, if may_block { short } else { long }) {
            Some((parked, done)) => out.push(json!({
                "blocked": false,
                "parked": parked.map(|id| json!(spec_buf(id))).unwrap_or(Value::Null),
                "parked_id_known": parked.map(|id| spec_buf(id).is_some()).unwrap_or(true),
                "done": done.is_some(),
                "res": done.unwrap_or(json!("none")),
            })),
            None => {
                out.push(json!({"blocked": true, "parked": Value::Null, "done": false, "res": "none"}));
                if !may_block {
                    break;
                }
            }
        }
    }
    // ---- wind down: let every parked thread run on (unscheduled) until all operations are finished.
    // Threads that are still inside Mutex::lock after that wait for a lock that no running thread holds.
    {
        let mut st = c.m.lock().unwrap();
        for t in st.iter_mut() {
            t.exit = true;
        }
        c.cv.notify_all();
    }
    let any_inflight = c.m.lock().unwrap().iter().any(|t| t.busy);
    let patience = Duration::from_millis(case["deadlock_ms"].as_u64().unwrap_or(if any_inflight { 2500 } else { 6000 }));
    let t0 = Instant::now();
    loop {
        {
            let mut st = c.m.lock().unwrap();
            for t in st.iter_mut() {
                if t.parked.is_some() {
                    t.parked = None;
                    t.granted = true;
                }
            }
            c.cv.notify_all();
        }
        if handles.iter().all(|h| h.is_finished()) || t0.elapsed() > patience {
            break;
        }
        std::thread::sleep(Duration::from_millis(1));
    }
    let joined = handles.iter().all(|h| h.is_finished());
    let stuck: Vec<usize> = handles.iter().enumerate().filter(|(_, h)| !h.is_finished()).map(|(i, _)| i + 1).collect();
    let mut fin = Value::Null;
    if joined {
        for h in handles {
            let _ = h.join();
        }
        fin = json!([&*f.get[role[0]].call(), &*f.get[role[1]].call()]);
        drop(f);
        drop(pkg);
    } else {
        // threads are stuck inside the package's code holding its constants' locks: leave everything behind
        std::mem::forget(f);
        std::mem::forget(pkg);
        std::mem::forget(handles);
    }
    json!({"steps": out, "final": fin, "joined": joined, "deadlocked": !joined, "stuck_threads": stuck,
           "addrless": addrless, "b_declared_first": b_first, "roles_swapped": swapped, "compile_attempts": attempts})
}

fn main() {
    let args = parse_args();
    let rt = Runtime::new();
    roto::verif::sched::set_hook(Some(Arc::new(hook)));
    run_batch(&args, |case, prog| run_case(case, &rt, prog));
}
