//! C16: imposes schedules on the real list implementation.
//!
//! A case is `{initbuf: [[..],[..]], steps: [{t, act: "start"|"step", op}]}`.
//! Worker threads execute operations on shared `List<u64>`s; the cfg-guarded
//! schedule points in src/value/list.rs call our hook, which parks the thread at
//! every pausing point (before each lock acquisition) until the controller grants
//! the next step; the list elements are a host type whose `Clone` is a further
//! pausing point while a `get` is running (the start of the clone of the element
//! that was looked up), so the window between lookup and clone is controllable
//! whether or not the code holds the lock there.  The controller follows the step list of the case (a ListConc behaviour
//! from TLC, or a random schedule chosen by python when `mode = "free"`), and
//! reports per step what the instrumentation observed:
//!   ev     : events emitted during the step (["use", stale], "realloc")
//!   parked : where the thread stopped next (kind, list index) or null
//!   done   : whether its operation completed, and `res`, its result
use std::cell::Cell;
use std::collections::HashMap;
use std::sync::{Arc, Condvar, Mutex};
use std::time::{Duration, Instant};

use roto::{FileTree, List, Runtime, Val, library};
use rvh::batch::{parse_args, run_batch};
use serde_json::{Value, json};

/// List element: a host value whose Clone is a pausing point during get
#[derive(Debug)]
pub struct El {
    v: u64,
}

impl PartialEq for El {
    fn eq(&self, other: &Self) -> bool {
        elem_point();
        self.v == other.v
    }
}

impl Clone for El {
    fn clone(&self) -> Self {
        clone_point();
        elem_point();
        El { v: self.v }
    }
}

type E = Val<El>;
type L = List<E>;

fn el(v: u64) -> E {
    Val(El { v })
}

#[derive(Default)]
struct Th {
    cmd: Option<Value>,
    exit: bool,
    granted: bool,
    parked: Option<(&'static str, usize)>,
    done: Option<Value>,
    events: Vec<Value>,
    cur_list: usize,
}

#[derive(Default)]
struct St {
    th: Vec<Th>,
    gen_of: HashMap<usize, u64>,
    /// storage object address -> list id (learnt from the "bind" event)
    raw_to_vid: HashMap<usize, usize>,
}

struct Ctl {
    m: Mutex<St>,
    cv: Condvar,
}

thread_local! {
    static TID: Cell<Option<usize>> = const { Cell::new(None) };
    static QUIET: Cell<bool> = const { Cell::new(false) };
    static IN_GET: Cell<bool> = const { Cell::new(false) };
    static ELEM_SEEN: Cell<bool> = const { Cell::new(false) };
    /// the running operation has passed an acquire point (element callbacks before that - e.g. the clone of
    /// the needle that contains / index make before they take the lock - are not accesses to the list)
    static ACQ_SEEN: Cell<bool> = const { Cell::new(false) };
    static CAPTURE: Cell<Option<usize>> = const { Cell::new(None) };
    static CAPTURE_RAW: Cell<Option<usize>> = const { Cell::new(None) };
    static CAPTURING: Cell<bool> = const { Cell::new(false) };
}

static CTL: Mutex<Option<Arc<Ctl>>> = Mutex::new(None);
/// probe mode: the first element callback (Clone / PartialEq) of every operation is a pausing point,
/// so the controller can test whether the list's lock is held while its elements are accessed
static ELEM_PAUSE_ALL: std::sync::atomic::AtomicBool = std::sync::atomic::AtomicBool::new(false);

fn ctl() -> Option<Arc<Ctl>> {
    CTL.lock().unwrap().clone()
}

fn park(c: &Ctl, tid: usize, kind: &'static str, a: usize) {
    let mut st = c.m.lock().unwrap();
    st.th[tid].parked = Some((kind, a));
    c.cv.notify_all();
    while !st.th[tid].granted {
        st = c.cv.wait(st).unwrap();
    }
    st.th[tid].granted = false;
    st.th[tid].parked = None;
}

fn hook(kind: &'static str, a: usize, _b: usize) {
    if CAPTURING.with(|c| c.get()) {
        if kind == "acquire" {
            CAPTURE.with(|c| c.set(Some(a)));
        }
        if kind == "bind" {
            CAPTURE_RAW.with(|c| c.set(Some(_b)));
        }
        return;
    }
    let Some(tid) = TID.with(|t| t.get()) else { return };
    if QUIET.with(|q| q.get()) {
        return;
    }
    let Some(c) = ctl() else { return };
    match kind {
        "bind" => {}
        "acquire" => {
            park(&c, tid, "acquire", a);
            ACQ_SEEN.with(|e| e.set(true));
            let mut st = c.m.lock().unwrap();
            st.th[tid].cur_list = a;
        }
        "realloc" => {
            // `a` is the storage object; storage of lists that are not shared
            // (the fresh result of a concat) is not tracked
            let mut st = c.m.lock().unwrap();
            if let Some(l) = st.raw_to_vid.get(&a).copied() {
                *st.gen_of.entry(l).or_insert(0) += 1;
                st.th[tid].events.push(json!("realloc"));
            }
        }
        _ => {}
    }
}

/// Called from `El::clone`: while a get is running the start of the clone is a
/// pausing point; on resume the clone is "stale" iff the storage of the list was
/// reallocated while the thread was parked (the pointer it is about to read
/// through belongs to a retired allocation).
fn clone_point() {
    let Some(tid) = TID.with(|t| t.get()) else { return };
    if QUIET.with(|q| q.get()) || !IN_GET.with(|g| g.get()) {
        return;
    }
    let Some(c) = ctl() else { return };
    let (l, g0) = {
        let st = c.m.lock().unwrap();
        let l = st.th[tid].cur_list;
        (l, *st.gen_of.get(&l).unwrap_or(&0))
    };
    park(&c, tid, "clone", l);
    let mut st = c.m.lock().unwrap();
    let g1 = *st.gen_of.get(&l).unwrap_or(&0);
    st.th[tid].events.push(json!(["use", g0 != g1]));
}

fn elem_point() {
    if !ELEM_PAUSE_ALL.load(std::sync::atomic::Ordering::SeqCst) {
        return;
    }
    let Some(tid) = TID.with(|t| t.get()) else { return };
    if QUIET.with(|q| q.get()) || !ACQ_SEEN.with(|e| e.get()) || ELEM_SEEN.with(|e| e.replace(true)) {
        return;
    }
    let Some(c) = ctl() else { return };
    let l = c.m.lock().unwrap().th[tid].cur_list;
    park(&c, tid, "elem", l);
}

fn list_vid(l: &L) -> (usize, usize) {
    CAPTURING.with(|c| c.set(true));
    CAPTURE.with(|c| c.set(None));
    CAPTURE_RAW.with(|c| c.set(None));
    let _ = l.len();
    CAPTURING.with(|c| c.set(false));
    (
        CAPTURE.with(|c| c.get()).expect("list.rs did not report an acquire point for len()"),
        CAPTURE_RAW.with(|c| c.get()).expect("list.rs did not report the storage binding for len()"),
    )
}

type SGet = roto::TypedFunc<roto::NoCtx, fn(L, u64) -> Option<E>>;
type SEq = roto::TypedFunc<roto::NoCtx, fn(L, L) -> bool>;
type SCat = roto::TypedFunc<roto::NoCtx, fn(L, L) -> L>;

#[derive(Clone)]
struct Funcs {
    sget: SGet,
    seq: SEq,
    scat: SCat,
}

fn run_op(op: &Value, lists: &[L], rev: bool, f: &Funcs) -> Value {
    let k = op["k"].as_str().unwrap();
    // every second thread keeps its handles in the opposite order in memory: code that orders locks by
    // anything but the identity of the shared storage then takes them in different orders on different threads
    let l = |name: &str| {
        let i = op[name].as_u64().unwrap() as usize - 1;
        &lists[if rev { lists.len() - 1 - i } else { i }]
    };
    let n = |name: &str| op[name].as_u64().unwrap();
    let opt = |x: Option<E>| match x {
        Some(v) => json!([v.v]),
        None => json!([]),
    };
    let vec = |l: &L| -> Value {
        QUIET.with(|q| q.set(true));
        let v: Vec<u64> = l.to_vec().iter().map(|e| e.v).collect();
        QUIET.with(|q| q.set(false));
        json!(v)
    };
    match k {
        "get" => {
            IN_GET.with(|g| g.set(true));
            let r = l("l").get(n("i") as usize);
            IN_GET.with(|g| g.set(false));
            opt(r)
        }
        "sget" => {
            IN_GET.with(|g| g.set(true));
            let r = f.sget.call(l("l").clone(), n("i"));
            IN_GET.with(|g| g.set(false));
            opt(r)
        }
        "push" => {
            l("l").push(el(n("v")));
            json!("ok")
        }
        "swap" => {
            l("l").swap(n("i") as usize, n("j") as usize);
            json!("ok")
        }
        "len" => json!(l("l").len()),
        "contains" => json!(l("l").contains(&el(n("v")))),
        "index" => json!(l("l").index(&el(n("v")))),
        "tovec" => {
            let r = l("l").to_vec();
            json!(r.iter().map(|e| e.v).collect::<Vec<u64>>())
        }
        "concat" => {
            let r = l("a").concat(l("b"));
            let v = vec(&r);
            QUIET.with(|q| q.set(true));
            drop(r);
            QUIET.with(|q| q.set(false));
            v
        }
        "sconcat" => {
            let r = f.scat.call(l("a").clone(), l("b").clone());
            let v = vec(&r);
            QUIET.with(|q| q.set(true));
            drop(r);
            QUIET.with(|q| q.set(false));
            v
        }
        "eq" => json!(l("a") == l("b")),
        "seq" => json!(f.seq.call(l("a").clone(), l("b").clone())),
        "clonedrop" => {
            drop(l("l").clone());
            json!("ok")
        }
        other => panic!("unknown op {other}"),
    }
}

fn worker(c: Arc<Ctl>, tid: usize, lists: Vec<L>, rev: bool, f: Funcs) {
    TID.with(|t| t.set(Some(tid)));
    loop {
        let cmd = {
            let mut st = c.m.lock().unwrap();
            loop {
                if st.th[tid].exit {
                    return;
                }
                if let Some(cmd) = st.th[tid].cmd.take() {
                    break cmd;
                }
                st = c.cv.wait(st).unwrap();
            }
        };
        ELEM_SEEN.with(|e| e.set(false));
        ACQ_SEEN.with(|e| e.set(false));
        let r = std::panic::catch_unwind(std::panic::AssertUnwindSafe(|| run_op(&cmd, &lists, rev, &f)));
        let v = match r {
            Ok(v) => v,
            Err(e) => json!({"panic": rvh::util::panic_message(&e)}),
        };
        let mut st = c.m.lock().unwrap();
        st.th[tid].done = Some(v);
        c.cv.notify_all();
    }
}

/// wait until thread `tid` is parked or finished its operation; None on timeout
fn wait_quiescent(c: &Ctl, tid: usize, limit: Duration) -> Option<Value> {
    let t0 = Instant::now();
    let mut st = c.m.lock().unwrap();
    loop {
        if st.th[tid].parked.is_some() || st.th[tid].done.is_some() {
            let ev = std::mem::take(&mut st.th[tid].events);
            let parked = st.th[tid].parked.map(|(k, a)| (k, a));
            let done = st.th[tid].done.take();
            return Some(json!({
                "ev": ev,
                "parked": parked.map(|(k, a)| json!({"k": k, "vid": a})),
                "done": done.is_some(),
                "res": done.unwrap_or(json!("none")),
            }));
        }
        let left = limit.checked_sub(t0.elapsed())?;
        let (g, to) = c.cv.wait_timeout(st, left).unwrap();
        st = g;
        if to.timed_out() && st.th[tid].parked.is_none() && st.th[tid].done.is_none() {
            return None;
        }
    }
}

fn run_case(case: &Value, f: &Funcs, prog: &rvh::batch::Progress) -> Value {
    let init = case["initbuf"].as_array().unwrap();
    // list ids follow the address order of the shared allocations, which is the
    // global lock order of the implementation (ListConc orders locks by list id)
    let mut lists: Vec<L> = init.iter().map(|_| List::new()).collect();
    lists.sort_by_key(|l| list_vid(l).0);
    for (l, b) in lists.iter().zip(init) {
        for x in b.as_array().unwrap() {
            l.push(el(x.as_u64().unwrap()));
        }
    }
    let ids: Vec<(usize, usize)> = lists.iter().map(list_vid).collect();
    let vids: Vec<usize> = ids.iter().map(|x| x.0).collect();
    let nthreads = case["threads"].as_u64().unwrap_or(2) as usize;
    ELEM_PAUSE_ALL.store(case.get("elem_pause").and_then(|b| b.as_bool()).unwrap_or(false), std::sync::atomic::Ordering::SeqCst);
    let c = Arc::new(Ctl { m: Mutex::new(St::default()), cv: Condvar::new() });
    {
        let mut st = c.m.lock().unwrap();
        for _ in 0..nthreads {
            st.th.push(Th::default());
        }
        for (vid, raw) in &ids {
            st.raw_to_vid.insert(*raw, *vid);
        }
    }
    *CTL.lock().unwrap() = Some(c.clone());
    let mut handles = vec![];
    for tid in 0..nthreads {
        let c2 = c.clone();
        let rev = tid % 2 == 1;
        let mut ls: Vec<L> = lists.to_vec();
        if rev {
            ls.reverse();
        }
        let f2 = f.clone();
        handles.push(std::thread::spawn(move || worker(c2, tid, ls, rev, f2)));
    }
    let mut out = vec![];
    let mut blocked = false;
    for (k, step) in case["steps"].as_array().unwrap().iter().enumerate() {
        prog.step(k as i64);
        let tid = step["t"].as_u64().unwrap() as usize - 1;
        let act = step["act"].as_str().unwrap();
        {
            let mut st = c.m.lock().unwrap();
            if act == "start" {
                if st.th[tid].parked.is_some() {
                    out.push(json!({"error": "thread is inside an operation, cannot start another"}));
                    break;
                }
                st.th[tid].cmd = Some(step["op"].clone());
            } else {
                if st.th[tid].parked.is_none() {
                    out.push(json!({"error": "thread is not at a pausing point (operation already completed)"}));
                    break;
                }
                st.th[tid].parked = None;
                st.th[tid].granted = true;
            }
            c.cv.notify_all();
        }
        let may_block = step.get("may_block").and_then(|b| b.as_bool()).unwrap_or(false);
        let limit = if may_block { Duration::from_millis(300) } else { Duration::from_secs(3) };
        match wait_quiescent(&c, tid, limit) {
            Some(mut v) => {
                if let Some(p) = v.get("parked").cloned()
                    && !p.is_null()
                {
                    let vid = p["vid"].as_u64().unwrap() as usize;
                    let li = vids.iter().position(|x| *x == vid).map(|i| i + 1);
                    v["parked"] = json!({"k": p["k"], "l": li});
                }
                out.push(v);
            }
            None if may_block => {
                // expected possibility: the thread waits for a lock held by a parked
                // thread; it continues on its own once that lock is released
                out.push(json!({"blocked": true}));
            }
            None => {
                out.push(json!({"blocked": true}));
                blocked = true;
                break;
            }
        }
    }
    if blocked {
        // a granted thread is stuck on a mutex: the threads cannot be joined.
        // Report and leave them behind (the process exits at the end of the batch).
        *CTL.lock().unwrap() = None;
        return json!({"steps": out, "blocked": true, "final": Value::Null});
    }
    // release everything that is still parked (runs the rest unscheduled), then stop the workers
    {
        let mut st = c.m.lock().unwrap();
        for t in st.th.iter_mut() {
            t.exit = true;
        }
        c.cv.notify_all();
    }
    let t0 = Instant::now();
    loop {
        {
            let mut st = c.m.lock().unwrap();
            for t in st.th.iter_mut() {
                if t.parked.is_some() {
                    t.parked = None;
                    t.granted = true;
                }
            }
            c.cv.notify_all();
        }
        if handles.iter().all(|h| h.is_finished()) || t0.elapsed() > Duration::from_secs(3) {
            break;
        }
        std::thread::sleep(Duration::from_millis(1));
    }
    let all = handles.iter().all(|h| h.is_finished());
    if all {
        for h in handles {
            let _ = h.join();
        }
    }
    *CTL.lock().unwrap() = None;
    let fin: Vec<Value> = lists.iter().map(|l| json!(l.to_vec().iter().map(|e| e.v).collect::<Vec<u64>>())).collect();
    json!({"steps": out, "blocked": false, "final": fin, "joined": all})
}

fn main() {
    let args = parse_args();
    let rt = Runtime::from_lib(library! {
        #[clone] type El = Val<El>;
    })
    .unwrap();
    let src = "fn sget(l: List[El], i: u64) -> El? { l.get(i) }\n\
               fn seq(a: List[El], b: List[El]) -> bool { a == b }\n\
               fn scat(a: List[El], b: List[El]) -> List[El] { a + b }\n";
    let mut pkg = FileTree::test_file("c16.roto", src, 0).compile(&rt).map_err(|e| e.to_string()).unwrap();
    let f = Funcs {
        sget: pkg.get_function("sget").unwrap(),
        seq: pkg.get_function("seq").unwrap(),
        scat: pkg.get_function("scat").unwrap(),
    };
    roto::verif::sched::set_hook(Some(Arc::new(hook)));
    run_batch(&args, |case, prog| run_case(case, &f, prog));
}
