//! C06 driver: compilation is total.
//!
//! Every case is one input of the compiler; the driver records what the real
//! crate does with it and computes no expectation (the comparison with the
//! specification happens in TLC: TraceTotality.tla / TraceLexer.tla, and in
//! lib/checks/c06.py for the token ranges printed by MCLexer).
//!
//! Cases
//!   {"k":"lex","src":S}                      token stream of roto::verif::lex (kind, start, end);
//!                                            the hook stops after an f-string start or the first error token
//!   {"k":"src","src":S}                      FileTree::test_file(..).compile(rt)
//!   {"k":"tree","files":[{name,module,src,children}]}   FileTree{files}.compile(rt)
//!   {"k":"spec","spec":{name,module,src,dir,children}}  FileTree::file_spec(..).compile(rt)
//!   {"k":"disk","path":P}                    FileTree::read(P) then compile
//!
//! Result of a compile case
//!   {"outcome":"ok"|"err"|"panic", "phase":"read"|"compile"|"spans"|"drop" (where it panicked),
//!    "loc":"file:line" and "msg" of the panic, "fn"/"via": innermost roto function on the stack and its line, "kinds":[..], "spans":[{file,len,start,end,ok}],
//!    "render":[{color:false,res:"done"|"panic",bytes,hints,hints_shown,loc,msg},{color:true,..}], "ms":elapsed}
//!
//! The work runs on one long-lived thread with a 64 MiB stack so that only
//! unbounded recursion exhausts it (the inputs have nesting depth <= 64).  A
//! stack overflow or abort kills this worker process; lib/vlib.py records that
//! as the outcome of the case and resumes with the next one.
use std::sync::mpsc::{Receiver, Sender, channel};
use std::sync::{Mutex, Once};
use std::time::Instant;

use roto::{FileSpec, FileTree, NoCtx, RotoReport, Runtime, SourceFile};
use rvh::batch::{parse_args, run_batch};
use serde_json::{Value, json};

static LAST_PANIC: Mutex<Option<(String, String)>> = Mutex::new(None);
static HOOK: Once = Once::new();
static WANT_FN: std::sync::atomic::AtomicBool = std::sync::atomic::AtomicBool::new(false);

fn install_hook() {
    HOOK.call_once(|| {
        std::panic::set_hook(Box::new(|info| {
            let loc = info
                .location()
                .map(|l| format!("{}:{}", l.file(), l.line()))
                .unwrap_or_else(|| "?".into());
            let msg = if let Some(s) = info.payload().downcast_ref::<&str>() {
                s.to_string()
            } else if let Some(s) = info.payload().downcast_ref::<String>() {
                s.clone()
            } else {
                "<non-string panic>".into()
            };
            // while compiling (not while rendering: those panics are many and cheap to identify by their
            // location) name the innermost function of the roto crate on the stack: line numbers move with
            // every commit, the function does not
            let loc = if WANT_FN.load(std::sync::atomic::Ordering::SeqCst) {
                let bt = std::backtrace::Backtrace::force_capture().to_string();
                if std::env::var_os("C06_BT").is_some() {
                    eprintln!("{bt}");
                }
                let mut func: Option<String> = None;
                let mut via: Option<String> = None;
                let mut lines = bt.lines().peekable();
                while let Some(line) = lines.next() {
                    let l = line.trim();
                    // "12: roto::codegen::FuncGen::operand" followed by "at /repo/src/codegen/mod.rs:992:17"
                    let Some((_, sym)) = l.split_once(": ") else { continue };
                    if !(sym.starts_with("roto::") || sym.starts_with("<roto::")) || sym.contains("roto::verif") {
                        continue;
                    }
                    if let Some(next) = lines.peek() {
                        if let Some(at) = next.trim().strip_prefix("at ") {
                            let mut parts = at.rsplitn(2, ':');
                            let _col = parts.next();
                            via = parts.next().map(|x| x.to_string());
                        }
                    }
                    func = Some(sym.to_string());
                    break;
                }
                format!("{loc}|{}|{}", func.unwrap_or_default(), via.unwrap_or_default())
            } else {
                loc
            };
            *LAST_PANIC.lock().unwrap_or_else(|e| e.into_inner()) = Some((loc, msg));
        }));
    });
}

fn take_panic() -> (String, String) {
    LAST_PANIC
        .lock()
        .unwrap_or_else(|e| e.into_inner())
        .take()
        .unwrap_or(("?".into(), "?".into()))
}

/// run `f`, a panic becomes Err((location, message))
fn guarded<T>(f: impl FnOnce() -> T) -> Result<T, (String, String)> {
    match std::panic::catch_unwind(std::panic::AssertUnwindSafe(f)) {
        Ok(v) => Ok(v),
        Err(_) => Err(take_panic()),
    }
}

fn source(v: &Value) -> SourceFile {
    SourceFile {
        name: v["name"].as_str().unwrap_or("pkg.roto").to_string(),
        module_name: v["module"].as_str().unwrap_or("pkg").to_string(),
        contents: v["src"].as_str().unwrap_or("").to_string(),
        location_offset: v["offset"].as_u64().unwrap_or(0) as usize,
        children: v["children"]
            .as_array()
            .map(|a| a.iter().map(|c| c.as_u64().unwrap() as usize).collect())
            .unwrap_or_default(),
    }
}

fn spec_of(v: &Value) -> FileSpec {
    let file = SourceFile {
        name: v["name"].as_str().unwrap_or("pkg.roto").to_string(),
        module_name: v["module"].as_str().unwrap_or("pkg").to_string(),
        contents: v["src"].as_str().unwrap_or("").to_string(),
        location_offset: 0,
        children: Vec::new(),
    };
    let children = v["children"].as_array().cloned().unwrap_or_default();
    if v["dir"].as_bool().unwrap_or(false) || !children.is_empty() {
        FileSpec::Directory(file, children.iter().map(spec_of).collect())
    } else {
        FileSpec::File(file)
    }
}

fn panic_result(phase: &str, p: (String, String), t0: Instant, mut base: Value) -> Value {
    let o = base.as_object_mut().unwrap();
    o.insert("outcome".into(), json!("panic"));
    o.insert("phase".into(), json!(phase));
    let mut parts = p.0.split('|');
    o.insert("loc".into(), json!(parts.next().unwrap_or("?")));
    o.insert("fn".into(), json!(parts.next().unwrap_or("")));
    o.insert("via".into(), json!(parts.next().unwrap_or("")));
    o.insert("msg".into(), json!(p.1.chars().take(300).collect::<String>()));
    o.insert("ms".into(), json!(t0.elapsed().as_millis() as u64));
    base
}

fn render(report: &RotoReport, color: bool, nhints: usize) -> (Value, Option<String>) {
    match guarded(|| {
        let mut s = String::new();
        report.write(&mut s, color).map(|_| s)
    }) {
        Ok(Ok(s)) => {
            // every hint of a parse error carries the text "is not a valid keyword": count the labels shown
            let shown = s.matches("is not a valid keyword").count();
            (
                json!({"color": color, "res": "done", "bytes": s.len(), "esc": s.contains('\u{1b}'),
                       "hints": nhints, "hints_shown": shown.min(nhints)}),
                Some(s),
            )
        }
        Ok(Err(_)) => (json!({"color": color, "res": "fmt_error"}), None),
        Err(p) => (
            json!({"color": color, "res": "panic", "loc": p.0, "msg": p.1.chars().take(300).collect::<String>()}),
            None,
        ),
    }
}

fn observe_report(report: &RotoReport, t0: Instant, want_text: bool) -> Value {
    let kinds = roto::verif::report_kinds(report);
    let base = json!({"kinds": kinds});
    let spans = match guarded(|| roto::verif::report_spans(report)) {
        Ok(s) => s,
        Err(p) => return panic_result("spans", p, t0, base),
    };
    // a parse error cites its location and then one location per hint
    let nparse = kinds.iter().filter(|k| **k == "parse").count();
    let nhints = if nparse == kinds.len() && nparse > 0 { spans.len().saturating_sub(nparse) } else { 0 };
    let spans: Vec<Value> = spans
        .iter()
        .map(|(file, len, start, end, ok)| json!({"file": file, "len": len, "start": start, "end": end, "ok": ok}))
        .collect();
    let (plain, text) = render(report, false, nhints);
    let (color, _) = render(report, true, nhints);
    let head: String = text.as_deref().unwrap_or("").lines().next().unwrap_or("").chars().take(160).collect();
    let mut v = json!({"outcome": "err", "kinds": kinds, "spans": spans, "render": [plain, color], "head": head,
                       "ms": t0.elapsed().as_millis() as u64});
    if want_text {
        v.as_object_mut().unwrap().insert("text".into(), json!(text));
    }
    v
}

fn compile_case(rt: &Runtime<NoCtx>, case: &Value) -> Value {
    let t0 = Instant::now();
    let k = case["k"].as_str().unwrap_or("src");
    let tree: Result<FileTree, RotoReport> = match guarded(|| match k {
        "src" => Ok(FileTree::test_file(
            case["name"].as_str().unwrap_or("t.roto"),
            case["src"].as_str().unwrap(),
            case["offset"].as_u64().unwrap_or(0) as usize,
        )),
        "tree" => Ok(FileTree { files: case["files"].as_array().unwrap().iter().map(source).collect() }),
        "spec" => Ok(FileTree::file_spec(spec_of(&case["spec"]))),
        "disk" => FileTree::read(case["path"].as_str().unwrap()),
        other => panic!("c06: unknown case kind {other}"),
    }) {
        Ok(t) => t,
        Err(p) => return panic_result("read", p, t0, json!({})),
    };
    let tree = match tree {
        Ok(t) => t,
        Err(report) => {
            let mut v = observe_report(&report, t0, case["text"].as_bool().unwrap_or(false));
            v.as_object_mut().unwrap().insert("at".into(), json!("read"));
            return v;
        }
    };
    let nfiles = tree.files.len();
    WANT_FN.store(true, std::sync::atomic::Ordering::SeqCst);
    let compiled = guarded(|| tree.compile(rt));
    WANT_FN.store(false, std::sync::atomic::Ordering::SeqCst);
    match compiled {
        Err(p) => panic_result("compile", p, t0, json!({"nfiles": nfiles})),
        Ok(Ok(pkg)) => match guarded(move || drop(pkg)) {
            Ok(()) => json!({"outcome": "ok", "nfiles": nfiles, "ms": t0.elapsed().as_millis() as u64}),
            Err(p) => panic_result("drop", p, t0, json!({"nfiles": nfiles})),
        },
        Ok(Err(report)) => {
            let mut v = observe_report(&report, t0, case["text"].as_bool().unwrap_or(false));
            v.as_object_mut().unwrap().insert("nfiles".into(), json!(nfiles));
            v
        }
    }
}

fn lex_case(case: &Value) -> Value {
    let src = case["src"].as_str().unwrap();
    match guarded(|| roto::verif::lex(src)) {
        Ok(toks) => {
            let t: Vec<Value> = toks.iter().map(|(kind, _text, s, e)| json!([kind, s, e])).collect();
            json!({"outcome": "ok", "len": src.len(), "toks": t})
        }
        Err(p) => json!({"outcome": "panic", "phase": "lex", "loc": p.0, "msg": p.1}),
    }
}

fn worker(rx: Receiver<Value>, tx: Sender<Value>) {
    let rt = Runtime::new();
    while let Ok(case) = rx.recv() {
        let r = if case["k"].as_str() == Some("lex") { lex_case(&case) } else { compile_case(&rt, &case) };
        if tx.send(r).is_err() {
            break;
        }
    }
}

fn main() {
    let args = parse_args();
    let mut chan: Option<(Sender<Value>, Receiver<Value>)> = None;
    run_batch(&args, |case, prog| {
        install_hook();
        if chan.is_none() {
            let (tx_case, rx_case) = channel::<Value>();
            let (tx_res, rx_res) = channel::<Value>();
            std::thread::Builder::new()
                .name("c06-worker".into())
                .stack_size(64 << 20)
                .spawn(move || worker(rx_case, tx_res))
                .expect("spawn worker");
            chan = Some((tx_case, rx_res));
        }
        prog.step(0);
        let (tx, rx) = chan.as_ref().unwrap();
        tx.send(case.clone()).expect("worker gone");
        rx.recv().expect("worker died")
    });
}
