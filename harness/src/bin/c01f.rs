//! C01 / C17 driver for the IEEE-754 part (spec/Ieee.tla, lib/checks/c01ieee.py).
//!
//! Values cross this file as BIT PATTERNS only (little-endian byte arrays, 4 bytes for f32,
//! 8 for f64).  Nothing is judged here: the recorded events are validated by TLC against
//! spec/Ieee.tla (TraceIeee.tla).
//!
//! A batch case is `{"mode": "calib" | "roto", "evs": [{"fmt": 32|64, "fn": <script function>,
//! "op": <spec operation>, "a": bytes, "b": bytes?, "c": bytes?}, ...]}`; the result is the list of
//! results (bytes or bool), one per event.
//!
//!   mode `roto`   the script below is compiled ONCE per process; every event calls the compiled
//!                 function `fn` through `get_function` with the operands and returns its result;
//!   mode `calib`  the same operation is evaluated with Rust's native f32 / f64 (the hardware's
//!                 IEEE arithmetic) - used to calibrate the specification, never to judge roto.
//!
//! `c01f --list` prints the table of script functions: name, format, spec operation, arity, kind of
//! result.  `c01f --script` prints the script.
use std::collections::HashMap;
use std::hint::black_box;

use roto::{FileTree, Runtime};
use rvh::batch::{Progress, parse_args, run_batch};
use serde_json::{Value, json};

/// (function name stem, spec operation, arity, returns bool, body with T = the float type)
const FUNCS: &[(&str, &str, usize, bool, &str)] = &[
    // one operator per function
    ("add", "add", 2, false, "a + b"),
    ("sub", "sub", 2, false, "a - b"),
    ("mul", "mul", 2, false, "a * b"),
    ("div", "div", 2, false, "a / b"),
    ("neg", "neg", 1, false, "-a"),
    ("eq", "eq", 2, true, "a == b"),
    ("ne", "ne", 2, true, "a != b"),
    ("lt", "lt", 2, true, "a < b"),
    ("le", "le", 2, true, "a <= b"),
    ("gt", "gt", 2, true, "a > b"),
    ("ge", "ge", 2, true, "a >= b"),
    // the comparison decides a branch instead of producing a value
    ("eqif", "eq", 2, true, "if a == b { true } else { false }"),
    ("neif", "ne", 2, true, "if a != b { true } else { false }"),
    ("ltif", "lt", 2, true, "if a < b { true } else { false }"),
    ("leif", "le", 2, true, "if a <= b { true } else { false }"),
    ("gtif", "gt", 2, true, "if a > b { true } else { false }"),
    ("geif", "ge", 2, true, "if a >= b { true } else { false }"),
    // negated comparisons (not the opposite comparison when an operand is NaN)
    ("nlt", "not_lt", 2, true, "!(a < b)"),
    ("nle", "not_le", 2, true, "!(a <= b)"),
    ("ngt", "not_gt", 2, true, "!(a > b)"),
    ("nge", "not_ge", 2, true, "!(a >= b)"),
    // compound assignment
    ("addas", "add", 2, false, "let x = a; x += b; x"),
    ("subas", "sub", 2, false, "let x = a; x -= b; x"),
    ("mulas", "mul", 2, false, "let x = a; x *= b; x"),
    ("divas", "div", 2, false, "let x = a; x /= b; x"),
    // compound forms: every operation rounds to the operand type
    ("muladd", "muladd", 3, false, "a * b + c"),
    ("mulsub", "mulsub", 3, false, "c - a * b"),
    ("mix", "mix", 3, false, "(a + b) + c"),
    ("divmul", "divmul", 3, false, "a / b * c"),
    // literal constants as operands
    ("div3", "div3", 1, false, "a / 3.0"),
    ("div10", "div10", 1, false, "a / 10.0"),
    ("mul0_1", "mul0_1", 1, false, "a * 0.1"),
    // built-ins (C17)
    ("abs", "abs", 1, false, "a.abs()"),
    ("sqrt", "sqrt", 1, false, "a.sqrt()"),
    ("floor", "floor", 1, false, "a.floor()"),
    ("ceil", "ceil", 1, false, "a.ceil()"),
    ("round", "round", 1, false, "a.round()"),
    ("is_nan", "is_nan", 1, true, "a.is_nan()"),
    ("is_infinite", "is_infinite", 1, true, "a.is_infinite()"),
    ("is_finite", "is_finite", 1, true, "a.is_finite()"),
];

fn script() -> String {
    let mut s = String::new();
    for (bits, ty) in [(32, "f32"), (64, "f64")] {
        for (stem, _, arity, ret_bool, body) in FUNCS {
            let params = ["a", "b", "c"][..*arity].iter().map(|p| format!("{p}: {ty}")).collect::<Vec<_>>().join(", ");
            let ret = if *ret_bool { "bool" } else { ty };
            s.push_str(&format!("fn {stem}{bits}({params}) -> {ret} {{ {body} }}\n"));
        }
    }
    s
}

fn bytes(v: &Value, n: usize) -> Vec<u8> {
    let b: Vec<u8> = v
        .as_array()
        .unwrap_or_else(|| panic!("harness: expected byte array, got {v}"))
        .iter()
        .map(|x| x.as_u64().unwrap_or_else(|| panic!("harness: expected byte, got {x}")) as u8)
        .collect();
    assert_eq!(b.len(), n, "harness: operand of wrong width");
    b
}
fn f32_of(v: &Value) -> f32 {
    f32::from_bits(u32::from_le_bytes(bytes(v, 4).try_into().unwrap()))
}
fn f64_of(v: &Value) -> f64 {
    f64::from_bits(u64::from_le_bytes(bytes(v, 8).try_into().unwrap()))
}
fn b32(x: f32) -> Value {
    json!(x.to_bits().to_le_bytes().to_vec())
}
fn b64(x: f64) -> Value {
    json!(x.to_bits().to_le_bytes().to_vec())
}

type Call = Box<dyn Fn(&Value) -> Value>;

macro_rules! bind {
    ($pkg:ident, $map:ident, $name:expr, $ty:ty, $of:ident, $out:ident, 1, false) => {{
        let f = $pkg.get_function::<fn($ty) -> $ty>($name).unwrap_or_else(|e| panic!("get_function {}: {e}", $name)).into_func();
        $map.insert($name.to_string(), Box::new(move |e: &Value| $out(f($of(&e["a"])))) as Call);
    }};
    ($pkg:ident, $map:ident, $name:expr, $ty:ty, $of:ident, $out:ident, 2, false) => {{
        let f = $pkg.get_function::<fn($ty, $ty) -> $ty>($name).unwrap_or_else(|e| panic!("get_function {}: {e}", $name)).into_func();
        $map.insert($name.to_string(), Box::new(move |e: &Value| $out(f($of(&e["a"]), $of(&e["b"])))) as Call);
    }};
    ($pkg:ident, $map:ident, $name:expr, $ty:ty, $of:ident, $out:ident, 3, false) => {{
        let f = $pkg.get_function::<fn($ty, $ty, $ty) -> $ty>($name).unwrap_or_else(|e| panic!("get_function {}: {e}", $name)).into_func();
        $map.insert($name.to_string(), Box::new(move |e: &Value| $out(f($of(&e["a"]), $of(&e["b"]), $of(&e["c"])))) as Call);
    }};
    ($pkg:ident, $map:ident, $name:expr, $ty:ty, $of:ident, $out:ident, 1, true) => {{
        let f = $pkg.get_function::<fn($ty) -> bool>($name).unwrap_or_else(|e| panic!("get_function {}: {e}", $name)).into_func();
        $map.insert($name.to_string(), Box::new(move |e: &Value| json!(f($of(&e["a"])))) as Call);
    }};
    ($pkg:ident, $map:ident, $name:expr, $ty:ty, $of:ident, $out:ident, 2, true) => {{
        let f = $pkg.get_function::<fn($ty, $ty) -> bool>($name).unwrap_or_else(|e| panic!("get_function {}: {e}", $name)).into_func();
        $map.insert($name.to_string(), Box::new(move |e: &Value| json!(f($of(&e["a"]), $of(&e["b"])))) as Call);
    }};
}

fn compiled() -> HashMap<String, Call> {
    let rt = Runtime::new();
    let mut pkg = FileTree::test_file("c01f.roto", &script(), 0)
        .compile(&rt)
        .map_err(|e| e.to_string())
        .unwrap_or_else(|e| panic!("harness: the c01f script does not compile: {e}"));
    let mut map: HashMap<String, Call> = HashMap::new();
    for (stem, _, arity, ret_bool, _) in FUNCS {
        let n32 = format!("{stem}32");
        let n64 = format!("{stem}64");
        match (*arity, *ret_bool) {
            (1, false) => {
                bind!(pkg, map, n32.as_str(), f32, f32_of, b32, 1, false);
                bind!(pkg, map, n64.as_str(), f64, f64_of, b64, 1, false);
            }
            (2, false) => {
                bind!(pkg, map, n32.as_str(), f32, f32_of, b32, 2, false);
                bind!(pkg, map, n64.as_str(), f64, f64_of, b64, 2, false);
            }
            (3, false) => {
                bind!(pkg, map, n32.as_str(), f32, f32_of, b32, 3, false);
                bind!(pkg, map, n64.as_str(), f64, f64_of, b64, 3, false);
            }
            (1, true) => {
                bind!(pkg, map, n32.as_str(), f32, f32_of, b32, 1, true);
                bind!(pkg, map, n64.as_str(), f64, f64_of, b64, 1, true);
            }
            (2, true) => {
                bind!(pkg, map, n32.as_str(), f32, f32_of, b32, 2, true);
                bind!(pkg, map, n64.as_str(), f64, f64_of, b64, 2, true);
            }
            _ => panic!("harness: unsupported signature for {stem}"),
        }
    }
    map
}

/// The operation evaluated by the host's own floating point unit (calibration of the specification).
macro_rules! native {
    ($ty:ty, $of:ident, $out:ident, $e:ident, $op:ident) => {{
        let a: $ty = black_box($of(&$e["a"]));
        let b: $ty = if $e.get("b").is_some() { black_box($of(&$e["b"])) } else { 0.0 };
        let c: $ty = if $e.get("c").is_some() { black_box($of(&$e["c"])) } else { 0.0 };
        match $op {
            "add" => $out(a + b),
            "sub" => $out(a - b),
            "mul" => $out(a * b),
            "div" => $out(a / b),
            "neg" => $out(-a),
            "abs" => $out(a.abs()),
            "sqrt" => $out(a.sqrt()),
            "floor" => $out(a.floor()),
            "ceil" => $out(a.ceil()),
            "round" => $out(a.round()),
            "eq" => json!(a == b),
            "ne" => json!(a != b),
            "lt" => json!(a < b),
            "le" => json!(a <= b),
            "gt" => json!(a > b),
            "ge" => json!(a >= b),
            "not_lt" => json!(!(a < b)),
            "not_le" => json!(!(a <= b)),
            "not_gt" => json!(!(a > b)),
            "not_ge" => json!(!(a >= b)),
            "is_nan" => json!(a.is_nan()),
            "is_infinite" => json!(a.is_infinite()),
            "is_finite" => json!(a.is_finite()),
            "muladd" => {
                let p: $ty = black_box(a * b);
                $out(p + c)
            }
            "mulsub" => {
                let p: $ty = black_box(a * b);
                $out(c - p)
            }
            "mix" => {
                let p: $ty = black_box(a + b);
                $out(p + c)
            }
            "divmul" => {
                let p: $ty = black_box(a / b);
                $out(p * c)
            }
            "div3" => $out(a / black_box(3.0)),
            "div10" => $out(a / black_box(10.0)),
            "mul0_1" => $out(a * black_box(0.1)),
            o => panic!("harness: unknown operation {o}"),
        }
    }};
}

fn main() {
    let argv: Vec<String> = std::env::args().collect();
    if argv.get(1).map(|s| s == "--script").unwrap_or(false) {
        print!("{}", script());
        return;
    }
    if argv.get(1).map(|s| s == "--list").unwrap_or(false) {
        let mut out = vec![];
        for bits in [32, 64] {
            for (stem, op, arity, ret_bool, body) in FUNCS {
                out.push(json!({"fn": format!("{stem}{bits}"), "fmt": bits, "op": op, "arity": arity, "bool": ret_bool, "body": body}));
            }
        }
        println!("{}", Value::from(out));
        return;
    }
    let args = parse_args();
    let mut fns: Option<HashMap<String, Call>> = None;
    run_batch(&args, |case: &Value, prog: &Progress| -> Value {
        let mode = case["mode"].as_str().unwrap_or_else(|| panic!("harness: case without mode"));
        let evs = case["evs"].as_array().unwrap_or_else(|| panic!("harness: case without evs"));
        let mut out = Vec::with_capacity(evs.len());
        for (k, e) in evs.iter().enumerate() {
            prog.step(k as i64);
            let r = match mode {
                "roto" => {
                    let map = fns.get_or_insert_with(compiled);
                    let name = e["fn"].as_str().unwrap_or_else(|| panic!("harness: event without fn"));
                    let f = map.get(name).unwrap_or_else(|| panic!("harness: unknown script function {name}"));
                    f(e)
                }
                "calib" => {
                    let op = e["op"].as_str().unwrap_or_else(|| panic!("harness: event without op"));
                    match e["fmt"].as_u64() {
                        Some(32) => native!(f32, f32_of, b32, e, op),
                        Some(64) => native!(f64, f64_of, b64, e, op),
                        _ => panic!("harness: unknown format {}", e["fmt"]),
                    }
                }
                m => panic!("harness: unknown mode {m}"),
            };
            out.push(r);
        }
        Value::from(out)
    });
}
