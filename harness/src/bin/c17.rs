//! C17 driver: one compiled script with one function per built-in of the default
//! runtime; every case `{"m": <function>, "a": [abstract arguments]}` is
//! concretised (pure representation mapping), the script function is called and the
//! abstract result is written.  Nothing is judged here: expected values come from
//! spec/Builtins.tla (computed by TLC) and are compared in lib/checks/c17.py, or the
//! logged events are validated by TLC (TraceBuiltins.tla).
//!
//! Representation (shared with the specification):
//!   String           array of Unicode scalar values        "aé"  -> [97, 233]
//!   char             scalar value
//!   Option[T]        [] (None) or [x] (Some(x))
//!   List[T]          array
//!   bool             true / false
//!   u64 index/count  integer; 1000000 stands for u64::MAX ("beyond everything")
//!   integers (to_string)  little-endian byte array of the type's width
//!   float            {"cls":"fin","num":n,"exp":e} (= n * 2^e, n odd, or n = 0 and e = 0),
//!                    {"cls":"nzero"|"pinf"|"ninf"|"nan"}
//!   IpAddr           {"v":4,"b":[4 bytes]} / {"v":6,"b":[16 bytes]}
//!   Prefix           {"addr": IpAddr, "len": n}
//!
//! Modes:
//!   c17 <in> <out> [--start K] [--stall S]     batch (cases as above, or
//!                                              {"gen": seed, "n": N}: the harness's own
//!                                              seeded generator; result = list of events)
//!   c17 --table <dir>                          print the table of registered built-ins
//!                                              (from Runtime::print_documentation)
//!   c17 --units                                print {function: compile error} for the script
//!                                              functions that do not compile against the runtime
use std::net::{IpAddr, Ipv4Addr, Ipv6Addr};

use inetnum::addr::Prefix;
use inetnum::asn::Asn;
use roto::{FileTree, List, RotoString, Runtime};
use rvh::batch::{Progress, parse_args, run_batch};
use serde_json::{Value, json};

const HUGE: u64 = 1_000_000;

const SCRIPT: &str = r#"
fn s_append(s: String, t: String) -> String { s.append(t) }
fn s_plus(s: String, t: String) -> String { s + t }
fn s_contains(s: String, n: String) -> bool { s.contains(n) }
fn s_starts_with(s: String, n: String) -> bool { s.starts_with(n) }
fn s_ends_with(s: String, n: String) -> bool { s.ends_with(n) }
fn s_to_lowercase(s: String) -> String { s.to_lowercase() }
fn s_to_uppercase(s: String) -> String { s.to_uppercase() }
fn s_repeat(s: String, n: u64) -> String { s.repeat(n) }
fn s_eq(s: String, t: String) -> bool { s.eq(t) }
fn s_eqop(s: String, t: String) -> bool { s == t }
fn s_neop(s: String, t: String) -> bool { s != t }
fn s_replace(s: String, f: String, t: String) -> String { s.replace(f, t) }
fn s_split(s: String, sep: String) -> List[String] { s.split(sep) }
fn s_trim(s: String) -> String { s.trim() }
fn s_trim_start(s: String) -> String { s.trim_start() }
fn s_trim_end(s: String) -> String { s.trim_end() }
fn s_strip_prefix(s: String, p: String) -> String? { s.strip_prefix(p) }
fn s_strip_suffix(s: String, p: String) -> String? { s.strip_suffix(p) }
fn s_splitn(s: String, n: u64, sep: String) -> List[String] { s.splitn(n, sep) }
fn s_rsplitn(s: String, n: u64, sep: String) -> List[String] { s.rsplitn(n, sep) }
fn s_to_string(s: String) -> String { s.to_string() }
fn s_fmt(s: String) -> String { f"{s}" }
fn s_from_chars(l: List[char]) -> String { String.from_chars(l) }
fn l_join(l: List[String], sep: String) -> String { l.join(sep) }

fn b_len(s: String) -> u64 { s.bytes().len() }
fn b_get(s: String, i: u64) -> char? { s.bytes().get(i) }
fn b_slice(s: String, i: u64, j: u64) -> String? { s.bytes().slice(i, j) }
fn b_list(s: String) -> List[u8] { s.bytes().list() }
fn c_len(s: String) -> u64 { s.chars().len() }
fn c_get(s: String, i: u64) -> char? { s.chars().get(i) }
fn c_slice(s: String, i: u64, j: u64) -> String? { s.chars().slice(i, j) }
fn c_list(s: String) -> List[char] { s.chars().list() }
fn ln_len(s: String) -> u64 { s.lines().len() }
fn ln_get(s: String, i: u64) -> String? { s.lines().get(i) }
fn ln_slice(s: String, i: u64, j: u64) -> String? { s.lines().slice(i, j) }
fn ln_list(s: String) -> List[String] { s.lines().list() }

fn sb_helper_char(b: StringBuf, c: char) { b.push_char(c); }
fn sb_helper_string(b: StringBuf, s: String) { b.push_string(s); }
fn sb_run(init: String?, kinds: List[u8], cs: List[char], ss: List[String]) -> List[String] {
    let b = match init {
        Some(s) => StringBuf.from(s),
        None => StringBuf.new(),
    };
    let out: List[String] = [];
    out.push(b.as_string());
    let i: u64 = 0;
    for k in kinds {
        match cs.get(i) {
            Some(c) => {
                if k == 1 { b.push_char(c); }
                if k == 3 { sb_helper_char(b, c); }
            }
            None => {}
        }
        match ss.get(i) {
            Some(s) => {
                if k == 2 { b.push_string(s); }
                if k == 4 { sb_helper_string(b, s); }
            }
            None => {}
        }
        out.push(b.as_string());
        i = i + 1;
    }
    out
}

fn ts_bool(x: bool) -> String { x.to_string() }
fn ts_char(x: char) -> String { x.to_string() }
fn ts_u8(x: u8) -> String { x.to_string() }
fn ts_u16(x: u16) -> String { x.to_string() }
fn ts_u32(x: u32) -> String { x.to_string() }
fn ts_u64(x: u64) -> String { x.to_string() }
fn ts_i8(x: i8) -> String { x.to_string() }
fn ts_i16(x: i16) -> String { x.to_string() }
fn ts_i32(x: i32) -> String { x.to_string() }
fn ts_i64(x: i64) -> String { x.to_string() }
fn ts_f32(x: f32) -> String { x.to_string() }
fn ts_f64(x: f64) -> String { x.to_string() }
fn ts_ip(x: IpAddr) -> String { x.to_string() }
fn ts_prefix(x: IpAddr, n: u8) -> String { Prefix.new(x, n).to_string() }
fn ts_asn(x: Asn) -> String { x.to_string() }
fn fm_bool(x: bool) -> String { f"{x}" }
fn fm_char(x: char) -> String { f"{x}" }
fn fm_u8(x: u8) -> String { f"{x}" }
fn fm_u64(x: u64) -> String { f"{x}" }
fn fm_i8(x: i8) -> String { f"{x}" }
fn fm_i64(x: i64) -> String { f"{x}" }
fn fm_f64(x: f64) -> String { f"{x}" }
fn fm_ip(x: IpAddr) -> String { f"{x}" }
fn fm_asn(x: Asn) -> String { f"{x}" }

fn f64_floor(x: f64) -> f64 { x.floor() }
fn f64_ceil(x: f64) -> f64 { x.ceil() }
fn f64_round(x: f64) -> f64 { x.round() }
fn f64_abs(x: f64) -> f64 { x.abs() }
fn f64_sqrt(x: f64) -> f64 { x.sqrt() }
fn f64_pow(x: f64, y: f64) -> f64 { x.pow(y) }
fn f64_is_nan(x: f64) -> bool { x.is_nan() }
fn f64_is_infinite(x: f64) -> bool { x.is_infinite() }
fn f64_is_finite(x: f64) -> bool { x.is_finite() }
fn f32_floor(x: f32) -> f32 { x.floor() }
fn f32_ceil(x: f32) -> f32 { x.ceil() }
fn f32_round(x: f32) -> f32 { x.round() }
fn f32_abs(x: f32) -> f32 { x.abs() }
fn f32_sqrt(x: f32) -> f32 { x.sqrt() }
fn f32_pow(x: f32, y: f32) -> f32 { x.pow(y) }
fn f32_is_nan(x: f32) -> bool { x.is_nan() }
fn f32_is_infinite(x: f32) -> bool { x.is_infinite() }
fn f32_is_finite(x: f32) -> bool { x.is_finite() }

fn ip_eq(a: IpAddr, b: IpAddr) -> bool { a.eq(b) }
fn ip_eqop(a: IpAddr, b: IpAddr) -> bool { a == b }
fn ip_neop(a: IpAddr, b: IpAddr) -> bool { a != b }
fn ip_is_ipv4(a: IpAddr) -> bool { a.is_ipv4() }
fn ip_is_ipv6(a: IpAddr) -> bool { a.is_ipv6() }
fn ip_to_canonical(a: IpAddr) -> IpAddr { a.to_canonical() }
fn ip_localhostv4() -> IpAddr { IpAddr.LOCALHOSTV4 }
fn ip_localhostv6() -> IpAddr { IpAddr.LOCALHOSTV6 }

fn p_new(a: IpAddr, n: u8) -> Prefix { Prefix.new(a, n) }
fn p_div(a: IpAddr, n: u8) -> Prefix { a / n }
fn p_addr(a: IpAddr, n: u8) -> IpAddr { Prefix.new(a, n).addr() }
fn p_min_addr(a: IpAddr, n: u8) -> IpAddr { Prefix.new(a, n).min_addr() }
fn p_max_addr(a: IpAddr, n: u8) -> IpAddr { Prefix.new(a, n).max_addr() }
fn p_len(a: IpAddr, n: u8) -> u8 { Prefix.new(a, n).len() }
fn p_eq(a: IpAddr, n: u8, b: IpAddr, k: u8) -> bool { Prefix.new(a, n).eq(Prefix.new(b, k)) }
fn p_eqop(a: IpAddr, n: u8, b: IpAddr, k: u8) -> bool { Prefix.new(a, n) == Prefix.new(b, k) }
fn p_neop(a: IpAddr, n: u8, b: IpAddr, k: u8) -> bool { Prefix.new(a, n) != Prefix.new(b, k) }
"#;

// ------------------------------------------------------------ representation

fn u(v: &Value) -> u64 {
    v.as_u64().unwrap_or_else(|| panic!("harness: expected unsigned integer, got {v}"))
}
fn idx(v: &Value) -> u64 {
    let x = u(v);
    if x == HUGE { u64::MAX } else { x }
}
fn chr(v: &Value) -> char {
    char::from_u32(u(v) as u32).unwrap_or_else(|| panic!("harness: {v} is no scalar value"))
}
fn string(v: &Value) -> String {
    v.as_array().unwrap_or_else(|| panic!("harness: expected string (array), got {v}")).iter().map(chr).collect()
}
fn rs(v: &Value) -> RotoString {
    RotoString::from(string(v))
}
fn bytes_of(v: &Value) -> Vec<u8> {
    v.as_array().unwrap().iter().map(|b| u(b) as u8).collect()
}
fn le<const N: usize>(v: &Value) -> [u8; N] {
    let b = bytes_of(v);
    assert_eq!(b.len(), N, "harness: integer of wrong width");
    let mut o = [0u8; N];
    o.copy_from_slice(&b);
    o
}
fn float(v: &Value) -> f64 {
    match v["cls"].as_str().unwrap() {
        "nan" => f64::NAN,
        "pinf" => f64::INFINITY,
        "ninf" => f64::NEG_INFINITY,
        "nzero" => -0.0,
        "fin" => {
            let n = v["num"].as_i64().unwrap() as f64;
            let e = v["exp"].as_i64().unwrap() as i32;
            n * 2f64.powi(e)
        }
        c => panic!("harness: float class {c}"),
    }
}
fn float32(v: &Value) -> f32 {
    let x = float(v);
    let y = x as f32;
    assert!(x.is_nan() || (y as f64) == x, "harness: {v} is not exactly representable as f32");
    y
}
fn ip(v: &Value) -> IpAddr {
    let b = bytes_of(&v["b"]);
    match u(&v["v"]) {
        4 => {
            let a: [u8; 4] = b.try_into().unwrap();
            IpAddr::V4(Ipv4Addr::from(a))
        }
        6 => {
            let a: [u8; 16] = b.try_into().unwrap();
            IpAddr::V6(Ipv6Addr::from(a))
        }
        x => panic!("harness: ip version {x}"),
    }
}

fn a_str(s: &str) -> Value {
    Value::from(s.chars().map(|c| c as u32).collect::<Vec<u32>>())
}
fn a_rs(s: &RotoString) -> Value {
    a_str(s)
}
fn a_opt_rs(s: &Option<RotoString>) -> Value {
    match s {
        None => json!([]),
        Some(s) => json!([a_rs(s)]),
    }
}
fn a_opt_char(c: &Option<char>) -> Value {
    match c {
        None => json!([]),
        Some(c) => json!([*c as u32]),
    }
}
fn a_list_rs(l: &List<RotoString>) -> Value {
    Value::from(l.to_vec().iter().map(a_rs).collect::<Vec<Value>>())
}
fn a_float(x: f64) -> Value {
    if x.is_nan() {
        return json!({"cls": "nan"});
    }
    if x == f64::INFINITY {
        return json!({"cls": "pinf"});
    }
    if x == f64::NEG_INFINITY {
        return json!({"cls": "ninf"});
    }
    if x == 0.0 {
        return if x.is_sign_negative() { json!({"cls": "nzero"}) } else { json!({"cls": "fin", "num": 0, "exp": 0}) };
    }
    // x = m * 2^e with m odd
    let mut m = x;
    let mut e: i64 = 0;
    let mut guard = 0;
    while m.fract() != 0.0 && guard < 1200 {
        m *= 2.0;
        e -= 1;
        guard += 1;
    }
    while m != 0.0 && (m / 2.0).fract() == 0.0 && guard < 2400 {
        m /= 2.0;
        e += 1;
        guard += 1;
    }
    if m.abs() < 2147483648.0 && e.abs() < 100000 {
        json!({"cls": "fin", "num": m as i64, "exp": e})
    } else {
        json!({"cls": "other", "bits": format!("{:016x}", x.to_bits())})
    }
}
fn a_ip(a: &IpAddr) -> Value {
    match a {
        IpAddr::V4(x) => json!({"v": 4, "b": x.octets().to_vec()}),
        IpAddr::V6(x) => json!({"v": 6, "b": x.octets().to_vec()}),
    }
}
fn a_prefix(p: &Prefix) -> Value {
    let (a, n) = p.addr_and_len();
    json!({"addr": a_ip(&a), "len": n})
}

// ------------------------------------------------------------------- runner

macro_rules! fns {
    ($pkg:ident, $bad:ident; $( $name:ident : $sig:ty ),* $(,)?) => {
        $( let $name = match $pkg.get_function::<$sig>(stringify!($name)) {
               Ok(f) => Some(f),
               Err(e) => {
                   $bad.entry(stringify!($name).to_string()).or_insert_with(|| format!("get_function: {e}"));
                   None
               }
           }; )*
    };
}

/// Call a script function; a function whose unit did not compile (a built-in no longer has the
/// documented signature) yields an `unavailable` record instead of a value.
macro_rules! c {
    ($bad:ident, $f:ident $(, $a:expr)* $(,)?) => {
        match &$f {
            Some(f) => f.call($($a),*),
            None => return json!({"unavailable": stringify!($f), "error": $bad.get(stringify!($f)).cloned().unwrap_or_default()}),
        }
    };
}

/// The script is compiled unit by unit (one top-level function each, plus the StringBuf helpers) first;
/// units that do not compile are left out of the script that is actually used and reported per call.
fn units() -> Vec<(String, String)> {
    let mut out: Vec<(String, String)> = vec![];
    for line in SCRIPT.lines() {
        if line.starts_with("fn ") {
            let name = line[3..].split('(').next().unwrap().trim().to_string();
            out.push((name, String::new()));
        }
        if let Some(last) = out.last_mut() {
            last.1.push_str(line);
            last.1.push('\n');
        }
    }
    out
}

fn strip_ansi(s: &str) -> String {
    let mut out = String::new();
    let mut it = s.chars();
    while let Some(ch) = it.next() {
        if ch == '\u{1b}' {
            for d in it.by_ref() {
                if d.is_ascii_alphabetic() {
                    break;
                }
            }
        } else {
            out.push(ch);
        }
    }
    out
}

fn usable_script(rt: &Runtime<roto::NoCtx>) -> (String, std::collections::HashMap<String, String>) {
    let us = units();
    let helpers: String = us.iter().filter(|(n, _)| n.starts_with("sb_helper")).map(|(_, s)| s.clone()).collect();
    let mut bad = std::collections::HashMap::new();
    let mut script = String::new();
    for (name, src) in &us {
        let text = if name.starts_with("sb_helper") { helpers.clone() } else if name == "sb_run" { format!("{helpers}{src}") } else { src.clone() };
        match FileTree::test_file("c17_unit.roto", &text, 0).compile(rt) {
            Ok(_) => script.push_str(src),
            Err(e) => {
                let msg: String = strip_ansi(&e.to_string()).split_whitespace().collect::<Vec<_>>().join(" ");
                bad.insert(name.clone(), msg.chars().take(400).collect());
            }
        }
    }
    (script, bad)
}

type S = RotoString;

fn table(dir: &str) {
    let rt = Runtime::new();
    let path = std::path::Path::new(dir);
    if path.exists() {
        std::fs::remove_dir_all(path).unwrap();
    }
    rt.print_documentation(path).expect("print_documentation");
    fn walk(p: &std::path::Path, out: &mut Vec<String>) {
        for e in std::fs::read_dir(p).unwrap() {
            let e = e.unwrap().path();
            if e.is_dir() {
                walk(&e, out);
            } else if e.extension().map(|x| x == "md").unwrap_or(false) {
                let text = std::fs::read_to_string(&e).unwrap();
                for line in text.lines() {
                    let l = line.trim_start_matches('`');
                    for kind in ["{roto:method}", "{roto:static_method}", "{roto:function}", "{roto:constant}"] {
                        if line.starts_with("````") && l.starts_with(kind) {
                            out.push(format!("{} {}", &kind[6..kind.len() - 1], l[kind.len()..].trim()));
                        }
                    }
                }
            }
        }
    }
    let mut out = vec![];
    walk(path, &mut out);
    out.sort();
    for l in out {
        println!("{l}");
    }
}

fn main() {
    let argv: Vec<String> = std::env::args().collect();
    if argv.get(1).map(|s| s == "--table").unwrap_or(false) {
        table(&argv[2]);
        return;
    }
    let rt = Runtime::new();
    let (script, mut bad) = usable_script(&rt);
    if argv.get(1).map(|s| s == "--units").unwrap_or(false) {
        // report which script functions do not compile against this runtime
        println!("{}", serde_json::to_string(&bad).unwrap());
        return;
    }
    let mut pkg = FileTree::test_file("c17.roto", &script, 0)
        .compile(&rt)
        .map_err(|e| e.to_string())
        .expect("the units of the c17 script compile separately, so the whole must compile");

    fns!(pkg, bad;
        s_append: fn(S, S) -> S, s_plus: fn(S, S) -> S,
        s_contains: fn(S, S) -> bool, s_starts_with: fn(S, S) -> bool, s_ends_with: fn(S, S) -> bool,
        s_to_lowercase: fn(S) -> S, s_to_uppercase: fn(S) -> S, s_repeat: fn(S, u64) -> S,
        s_eq: fn(S, S) -> bool, s_eqop: fn(S, S) -> bool, s_neop: fn(S, S) -> bool,
        s_replace: fn(S, S, S) -> S, s_split: fn(S, S) -> List<S>,
        s_trim: fn(S) -> S, s_trim_start: fn(S) -> S, s_trim_end: fn(S) -> S,
        s_strip_prefix: fn(S, S) -> Option<S>, s_strip_suffix: fn(S, S) -> Option<S>,
        s_splitn: fn(S, u64, S) -> List<S>, s_rsplitn: fn(S, u64, S) -> List<S>,
        s_to_string: fn(S) -> S, s_fmt: fn(S) -> S,
        s_from_chars: fn(List<char>) -> S, l_join: fn(List<S>, S) -> S,
        b_len: fn(S) -> u64, b_get: fn(S, u64) -> Option<char>, b_slice: fn(S, u64, u64) -> Option<S>,
        b_list: fn(S) -> List<u8>,
        c_len: fn(S) -> u64, c_get: fn(S, u64) -> Option<char>, c_slice: fn(S, u64, u64) -> Option<S>,
        c_list: fn(S) -> List<char>,
        ln_len: fn(S) -> u64, ln_get: fn(S, u64) -> Option<S>, ln_slice: fn(S, u64, u64) -> Option<S>,
        ln_list: fn(S) -> List<S>,
        sb_run: fn(Option<S>, List<u8>, List<char>, List<S>) -> List<S>,
        ts_bool: fn(bool) -> S, ts_char: fn(char) -> S,
        ts_u8: fn(u8) -> S, ts_u16: fn(u16) -> S, ts_u32: fn(u32) -> S, ts_u64: fn(u64) -> S,
        ts_i8: fn(i8) -> S, ts_i16: fn(i16) -> S, ts_i32: fn(i32) -> S, ts_i64: fn(i64) -> S,
        ts_f32: fn(f32) -> S, ts_f64: fn(f64) -> S,
        ts_ip: fn(IpAddr) -> S, ts_prefix: fn(IpAddr, u8) -> S, ts_asn: fn(Asn) -> S,
        fm_bool: fn(bool) -> S, fm_char: fn(char) -> S, fm_u8: fn(u8) -> S, fm_u64: fn(u64) -> S,
        fm_i8: fn(i8) -> S, fm_i64: fn(i64) -> S, fm_f64: fn(f64) -> S, fm_ip: fn(IpAddr) -> S,
        fm_asn: fn(Asn) -> S,
        f64_floor: fn(f64) -> f64, f64_ceil: fn(f64) -> f64, f64_round: fn(f64) -> f64,
        f64_abs: fn(f64) -> f64, f64_sqrt: fn(f64) -> f64, f64_pow: fn(f64, f64) -> f64,
        f64_is_nan: fn(f64) -> bool, f64_is_infinite: fn(f64) -> bool, f64_is_finite: fn(f64) -> bool,
        f32_floor: fn(f32) -> f32, f32_ceil: fn(f32) -> f32, f32_round: fn(f32) -> f32,
        f32_abs: fn(f32) -> f32, f32_sqrt: fn(f32) -> f32, f32_pow: fn(f32, f32) -> f32,
        f32_is_nan: fn(f32) -> bool, f32_is_infinite: fn(f32) -> bool, f32_is_finite: fn(f32) -> bool,
        ip_eq: fn(IpAddr, IpAddr) -> bool, ip_eqop: fn(IpAddr, IpAddr) -> bool, ip_neop: fn(IpAddr, IpAddr) -> bool,
        ip_is_ipv4: fn(IpAddr) -> bool, ip_is_ipv6: fn(IpAddr) -> bool, ip_to_canonical: fn(IpAddr) -> IpAddr,
        ip_localhostv4: fn() -> IpAddr, ip_localhostv6: fn() -> IpAddr,
        p_new: fn(IpAddr, u8) -> Prefix, p_div: fn(IpAddr, u8) -> Prefix,
        p_addr: fn(IpAddr, u8) -> IpAddr, p_min_addr: fn(IpAddr, u8) -> IpAddr, p_max_addr: fn(IpAddr, u8) -> IpAddr,
        p_len: fn(IpAddr, u8) -> u8,
        p_eq: fn(IpAddr, u8, IpAddr, u8) -> bool, p_eqop: fn(IpAddr, u8, IpAddr, u8) -> bool,
        p_neop: fn(IpAddr, u8, IpAddr, u8) -> bool,
    );

    let bad = bad;
    let args = parse_args();
    let apply = |m: &str, a: &[Value]| -> Value {
        match m {
            "s_append" => a_rs(&c!(bad, s_append, rs(&a[0]), rs(&a[1]))),
            "s_plus" => a_rs(&c!(bad, s_plus, rs(&a[0]), rs(&a[1]))),
            "s_contains" => json!(c!(bad, s_contains, rs(&a[0]), rs(&a[1]))),
            "s_starts_with" => json!(c!(bad, s_starts_with, rs(&a[0]), rs(&a[1]))),
            "s_ends_with" => json!(c!(bad, s_ends_with, rs(&a[0]), rs(&a[1]))),
            "s_to_lowercase" => a_rs(&c!(bad, s_to_lowercase, rs(&a[0]))),
            "s_to_uppercase" => a_rs(&c!(bad, s_to_uppercase, rs(&a[0]))),
            "s_repeat" => a_rs(&c!(bad, s_repeat, rs(&a[0]), u(&a[1]))),
            "s_eq" => json!(c!(bad, s_eq, rs(&a[0]), rs(&a[1]))),
            "s_eqop" => json!(c!(bad, s_eqop, rs(&a[0]), rs(&a[1]))),
            "s_neop" => json!(c!(bad, s_neop, rs(&a[0]), rs(&a[1]))),
            "s_replace" => a_rs(&c!(bad, s_replace, rs(&a[0]), rs(&a[1]), rs(&a[2]))),
            "s_split" => a_list_rs(&c!(bad, s_split, rs(&a[0]), rs(&a[1]))),
            "s_trim" => a_rs(&c!(bad, s_trim, rs(&a[0]))),
            "s_trim_start" => a_rs(&c!(bad, s_trim_start, rs(&a[0]))),
            "s_trim_end" => a_rs(&c!(bad, s_trim_end, rs(&a[0]))),
            "s_strip_prefix" => a_opt_rs(&c!(bad, s_strip_prefix, rs(&a[0]), rs(&a[1]))),
            "s_strip_suffix" => a_opt_rs(&c!(bad, s_strip_suffix, rs(&a[0]), rs(&a[1]))),
            "s_splitn" => a_list_rs(&c!(bad, s_splitn, rs(&a[0]), idx(&a[1]), rs(&a[2]))),
            "s_rsplitn" => a_list_rs(&c!(bad, s_rsplitn, rs(&a[0]), idx(&a[1]), rs(&a[2]))),
            "s_to_string" => a_rs(&c!(bad, s_to_string, rs(&a[0]))),
            "s_fmt" => a_rs(&c!(bad, s_fmt, rs(&a[0]))),
            "s_from_chars" => {
                let l: List<char> = List::from(a[0].as_array().unwrap().iter().map(chr).collect::<Vec<char>>());
                a_rs(&c!(bad, s_from_chars, l))
            }
            "l_join" => {
                let l: List<S> = List::from(a[0].as_array().unwrap().iter().map(rs).collect::<Vec<S>>());
                a_rs(&c!(bad, l_join, l, rs(&a[1])))
            }
            "b_len" => json!(c!(bad, b_len, rs(&a[0]))),
            "b_get" => a_opt_char(&c!(bad, b_get, rs(&a[0]), idx(&a[1]))),
            "b_slice" => a_opt_rs(&c!(bad, b_slice, rs(&a[0]), idx(&a[1]), idx(&a[2]))),
            "b_list" => json!(c!(bad, b_list, rs(&a[0])).to_vec()),
            "c_len" => json!(c!(bad, c_len, rs(&a[0]))),
            "c_get" => a_opt_char(&c!(bad, c_get, rs(&a[0]), idx(&a[1]))),
            "c_slice" => a_opt_rs(&c!(bad, c_slice, rs(&a[0]), idx(&a[1]), idx(&a[2]))),
            "c_list" => Value::from(c!(bad, c_list, rs(&a[0])).to_vec().iter().map(|c| *c as u32).collect::<Vec<u32>>()),
            "ln_len" => json!(c!(bad, ln_len, rs(&a[0]))),
            "ln_get" => a_opt_rs(&c!(bad, ln_get, rs(&a[0]), idx(&a[1]))),
            "ln_slice" => a_opt_rs(&c!(bad, ln_slice, rs(&a[0]), idx(&a[1]), idx(&a[2]))),
            "ln_list" => a_list_rs(&c!(bad, ln_list, rs(&a[0]))),
            "sb_run" => {
                // a[0] = [] | [init], a[1] = ops: [{"k":1|3,"c":cp} | {"k":2|4,"s":str}]
                let init = a[0].as_array().unwrap().first().map(rs);
                let ops = a[1].as_array().unwrap();
                let kinds: List<u8> = List::from(ops.iter().map(|o| u(&o["k"]) as u8).collect::<Vec<u8>>());
                let cs: List<char> =
                    List::from(ops.iter().map(|o| if o.get("c").is_some() { chr(&o["c"]) } else { 'x' }).collect::<Vec<char>>());
                let ss: List<S> = List::from(
                    ops.iter().map(|o| if o.get("s").is_some() { rs(&o["s"]) } else { S::from("x") }).collect::<Vec<S>>(),
                );
                a_list_rs(&c!(bad, sb_run, init, kinds, cs, ss))
            }
            "ts_bool" => a_rs(&c!(bad, ts_bool, a[0].as_bool().unwrap())),
            "fm_bool" => a_rs(&c!(bad, fm_bool, a[0].as_bool().unwrap())),
            "ts_char" => a_rs(&c!(bad, ts_char, chr(&a[0]))),
            "fm_char" => a_rs(&c!(bad, fm_char, chr(&a[0]))),
            "ts_u8" => a_rs(&c!(bad, ts_u8, u8::from_le_bytes(le(&a[0])))),
            "fm_u8" => a_rs(&c!(bad, fm_u8, u8::from_le_bytes(le(&a[0])))),
            "ts_u16" => a_rs(&c!(bad, ts_u16, u16::from_le_bytes(le(&a[0])))),
            "ts_u32" => a_rs(&c!(bad, ts_u32, u32::from_le_bytes(le(&a[0])))),
            "ts_u64" => a_rs(&c!(bad, ts_u64, u64::from_le_bytes(le(&a[0])))),
            "fm_u64" => a_rs(&c!(bad, fm_u64, u64::from_le_bytes(le(&a[0])))),
            "ts_i8" => a_rs(&c!(bad, ts_i8, i8::from_le_bytes(le(&a[0])))),
            "fm_i8" => a_rs(&c!(bad, fm_i8, i8::from_le_bytes(le(&a[0])))),
            "ts_i16" => a_rs(&c!(bad, ts_i16, i16::from_le_bytes(le(&a[0])))),
            "ts_i32" => a_rs(&c!(bad, ts_i32, i32::from_le_bytes(le(&a[0])))),
            "ts_i64" => a_rs(&c!(bad, ts_i64, i64::from_le_bytes(le(&a[0])))),
            "fm_i64" => a_rs(&c!(bad, fm_i64, i64::from_le_bytes(le(&a[0])))),
            "ts_f32" => a_rs(&c!(bad, ts_f32, float32(&a[0]))),
            "ts_f64" => a_rs(&c!(bad, ts_f64, float(&a[0]))),
            "fm_f64" => a_rs(&c!(bad, fm_f64, float(&a[0]))),
            "ts_ip" => a_rs(&c!(bad, ts_ip, ip(&a[0]))),
            "fm_ip" => a_rs(&c!(bad, fm_ip, ip(&a[0]))),
            "ts_prefix" => a_rs(&c!(bad, ts_prefix, ip(&a[0]), u(&a[1]) as u8)),
            "ts_asn" => a_rs(&c!(bad, ts_asn, Asn::from_u32(u32::from_le_bytes(le(&a[0]))))),
            "fm_asn" => a_rs(&c!(bad, fm_asn, Asn::from_u32(u32::from_le_bytes(le(&a[0]))))),
            "f64_floor" => a_float(c!(bad, f64_floor, float(&a[0]))),
            "f64_ceil" => a_float(c!(bad, f64_ceil, float(&a[0]))),
            "f64_round" => a_float(c!(bad, f64_round, float(&a[0]))),
            "f64_abs" => a_float(c!(bad, f64_abs, float(&a[0]))),
            "f64_sqrt" => a_float(c!(bad, f64_sqrt, float(&a[0]))),
            "f64_pow" => a_float(c!(bad, f64_pow, float(&a[0]), float(&a[1]))),
            "f64_is_nan" => json!(c!(bad, f64_is_nan, float(&a[0]))),
            "f64_is_infinite" => json!(c!(bad, f64_is_infinite, float(&a[0]))),
            "f64_is_finite" => json!(c!(bad, f64_is_finite, float(&a[0]))),
            "f32_floor" => a_float(c!(bad, f32_floor, float32(&a[0])) as f64),
            "f32_ceil" => a_float(c!(bad, f32_ceil, float32(&a[0])) as f64),
            "f32_round" => a_float(c!(bad, f32_round, float32(&a[0])) as f64),
            "f32_abs" => a_float(c!(bad, f32_abs, float32(&a[0])) as f64),
            "f32_sqrt" => a_float(c!(bad, f32_sqrt, float32(&a[0])) as f64),
            "f32_pow" => a_float(c!(bad, f32_pow, float32(&a[0]), float32(&a[1])) as f64),
            "f32_is_nan" => json!(c!(bad, f32_is_nan, float32(&a[0]))),
            "f32_is_infinite" => json!(c!(bad, f32_is_infinite, float32(&a[0]))),
            "f32_is_finite" => json!(c!(bad, f32_is_finite, float32(&a[0]))),
            "ip_eq" => json!(c!(bad, ip_eq, ip(&a[0]), ip(&a[1]))),
            "ip_eqop" => json!(c!(bad, ip_eqop, ip(&a[0]), ip(&a[1]))),
            "ip_neop" => json!(c!(bad, ip_neop, ip(&a[0]), ip(&a[1]))),
            "ip_is_ipv4" => json!(c!(bad, ip_is_ipv4, ip(&a[0]))),
            "ip_is_ipv6" => json!(c!(bad, ip_is_ipv6, ip(&a[0]))),
            "ip_to_canonical" => a_ip(&c!(bad, ip_to_canonical, ip(&a[0]))),
            "ip_localhostv4" => a_ip(&c!(bad, ip_localhostv4)),
            "ip_localhostv6" => a_ip(&c!(bad, ip_localhostv6)),
            "p_new" => a_prefix(&c!(bad, p_new, ip(&a[0]), u(&a[1]) as u8)),
            "p_div" => a_prefix(&c!(bad, p_div, ip(&a[0]), u(&a[1]) as u8)),
            "p_addr" => a_ip(&c!(bad, p_addr, ip(&a[0]), u(&a[1]) as u8)),
            "p_min_addr" => a_ip(&c!(bad, p_min_addr, ip(&a[0]), u(&a[1]) as u8)),
            "p_max_addr" => a_ip(&c!(bad, p_max_addr, ip(&a[0]), u(&a[1]) as u8)),
            "p_len" => json!(c!(bad, p_len, ip(&a[0]), u(&a[1]) as u8)),
            "p_eq" => json!(c!(bad, p_eq, ip(&a[0]), u(&a[1]) as u8, ip(&a[2]), u(&a[3]) as u8)),
            "p_eqop" => json!(c!(bad, p_eqop, ip(&a[0]), u(&a[1]) as u8, ip(&a[2]), u(&a[3]) as u8)),
            "p_neop" => json!(c!(bad, p_neop, ip(&a[0]), u(&a[1]) as u8, ip(&a[2]), u(&a[3]) as u8)),
            _ => panic!("harness: unknown method {m}"),
        }
    };

    run_batch(&args, |case: &Value, prog: &Progress| -> Value {
        if let Some(seed) = case.get("gen") {
            let n = u(&case["n"]) as usize;
            let mut g = generator::Gen::new(u(seed));
            let mut events = Vec::with_capacity(n);
            for k in 0..n {
                prog.step(k as i64);
                let (m, a) = g.case();
                let res = apply(&m, &a);
                events.push(json!({"m": m, "a": a, "res": res}));
            }
            Value::from(events)
        } else {
            prog.step(0);
            apply(case["m"].as_str().unwrap(), case["a"].as_array().unwrap())
        }
    });
}

// --------------------------------------------------- seeded generator (I->S)

mod generator {
    use serde_json::{Value, json};

    /// Code points the specification knows the case mapping / white-space class of
    /// (Builtins.tla: KnownChar).  Deliberately wider than the alphabets TLC enumerates.
    const ALPHA: &[u32] = &[
        97, 98, 99, 122, 65, 66, 90, 48, 57, 33, 44, 45, 46, 58, 95, // a b c z A B Z 0 9 ! , - . : _
        32, 32, 10, 10, 13, 9, 11, 12, // space nl cr tab vt ff
        233, 201, 252, 220, 241, 224, 222, 254, 215, 247, // é É ü Ü ñ à Þ þ × ÷
        0xA0, 0x85, 0x2003, 0x3000, 0x2028, // white space beyond ASCII
        0x20AC, 0x4E2D, 0x1F600, 0x10348, 0x7FF, 0x800, 0xFFFD, // € 中 😀 𐍈 and encoding-width boundaries
    ];
    const SMALL: &[u32] = &[97, 98, 233, 0x20AC, 32, 10];

    pub struct Gen(u64);

    impl Gen {
        pub fn new(seed: u64) -> Self {
            Gen(seed.wrapping_mul(0x9E3779B97F4A7C15) ^ 0xD1B54A32D192ED03)
        }
        fn next(&mut self) -> u64 {
            // xorshift64*
            let mut x = self.0;
            x ^= x >> 12;
            x ^= x << 25;
            x ^= x >> 27;
            self.0 = x;
            x.wrapping_mul(0x2545F4914F6CDD1D)
        }
        fn below(&mut self, n: u64) -> u64 {
            (self.next() >> 11) % n
        }
        fn pick<'a, T>(&mut self, xs: &'a [T]) -> &'a T {
            &xs[self.below(xs.len() as u64) as usize]
        }
        fn string_over(&mut self, alpha: &[u32], maxlen: u64) -> Vec<u32> {
            let n = self.below(maxlen + 1);
            (0..n).map(|_| *self.pick(alpha)).collect()
        }
        fn string(&mut self) -> Vec<u32> {
            match self.below(4) {
                0 => self.string_over(SMALL, 10),
                1 => {
                    // text made of lines
                    let mut s = vec![];
                    for _ in 0..self.below(5) {
                        s.extend(self.string_over(&[97, 98, 233, 32], 3));
                        match self.below(4) {
                            0 => s.extend([13, 10]),
                            1 => s.push(13),
                            _ => s.push(10),
                        }
                    }
                    if self.below(2) == 0 {
                        s.extend(self.string_over(&[97, 233, 13], 2));
                    }
                    s
                }
                _ => self.string_over(ALPHA, 12),
            }
        }
        /// needle: often a substring of `s`
        fn needle(&mut self, s: &[u32]) -> Vec<u32> {
            match self.below(5) {
                0 => vec![],
                1 | 2 if !s.is_empty() => {
                    let i = self.below(s.len() as u64) as usize;
                    let l = 1 + self.below(3) as usize;
                    s[i..(i + l).min(s.len())].to_vec()
                }
                3 => self.string_over(SMALL, 2),
                _ => self.string_over(ALPHA, 2),
            }
        }
        fn index(&mut self, around: usize) -> u64 {
            match self.below(10) {
                0 => super::HUGE,
                1 => around as u64,
                2 => around as u64 + 1,
                _ => self.below(around as u64 + 3),
            }
        }
        fn int_bytes(&mut self, w: usize) -> Vec<u8> {
            let v: u64 = match self.below(8) {
                0 => 0,
                1 => u64::MAX,
                2 => 1u64 << (8 * w as u32 - 1),
                3 => (1u64 << (8 * w as u32 - 1)).wrapping_sub(1),
                4 => self.below(1000),
                5 => (self.below(1000) as i64).wrapping_neg() as u64,
                6 => 10u64.pow(self.below(20) as u32).wrapping_add(self.below(3)).wrapping_sub(1),
                _ => self.next() >> self.below(64),
            };
            v.to_le_bytes()[..w].to_vec()
        }
        fn float(&mut self, maxnum: i64, maxexp: i64) -> Value {
            match self.below(12) {
                0 => json!({"cls": "nan"}),
                1 => json!({"cls": "pinf"}),
                2 => json!({"cls": "ninf"}),
                3 => json!({"cls": "nzero"}),
                4 => json!({"cls": "fin", "num": 0, "exp": 0}),
                _ => {
                    let mut n = self.below(maxnum as u64) as i64 + 1;
                    let mut e = self.below(2 * maxexp as u64 + 1) as i64 - maxexp;
                    while n % 2 == 0 {
                        n /= 2;
                        e += 1;
                    }
                    if self.below(2) == 0 {
                        n = -n;
                    }
                    json!({"cls": "fin", "num": n, "exp": e})
                }
            }
        }
        fn ip(&mut self) -> Value {
            let pats: &[u8] = &[0, 0, 0, 255, 255, 1, 128, 127, 170, 85, 10, 192, 168, 254];
            if self.below(2) == 0 {
                let b: Vec<u8> = (0..4).map(|_| if self.below(3) == 0 { self.below(256) as u8 } else { *self.pick(pats) }).collect();
                json!({"v": 4, "b": b})
            } else {
                let mut b: Vec<u8> = (0..16).map(|_| if self.below(3) == 0 { self.below(256) as u8 } else { *self.pick(pats) }).collect();
                match self.below(6) {
                    0 => {
                        // IPv4-mapped
                        for x in b.iter_mut().take(10) {
                            *x = 0;
                        }
                        b[10] = 255;
                        b[11] = 255;
                    }
                    1 => {
                        // runs of zero groups
                        let st = self.below(8) as usize;
                        let ln = self.below(8) as usize + 1;
                        for g in st..(st + ln).min(8) {
                            b[2 * g] = 0;
                            b[2 * g + 1] = 0;
                        }
                    }
                    2 => {
                        for x in b.iter_mut().take(12) {
                            *x = 0;
                        }
                    }
                    _ => {}
                }
                json!({"v": 6, "b": b})
            }
        }
        fn plen(&mut self, ip: &Value) -> u64 {
            let max = if ip["v"] == 4 { 32 } else { 128 };
            match self.below(5) {
                0 => 0,
                1 => max,
                _ => self.below(max + 1),
            }
        }

        pub fn case(&mut self) -> (String, Vec<Value>) {
            const METHODS: &[&str] = &[
                "s_append", "s_plus", "s_contains", "s_starts_with", "s_ends_with", "s_to_lowercase", "s_to_uppercase",
                "s_repeat", "s_eq", "s_eqop", "s_neop", "s_replace", "s_split", "s_trim", "s_trim_start", "s_trim_end",
                "s_strip_prefix", "s_strip_suffix", "s_splitn", "s_rsplitn", "s_to_string", "s_fmt", "s_from_chars", "l_join",
                "b_len", "b_get", "b_slice", "b_list", "c_len", "c_get", "c_slice", "c_list",
                "ln_len", "ln_get", "ln_slice", "ln_list", "sb_run",
                "ts_bool", "ts_char", "ts_u8", "ts_u16", "ts_u32", "ts_u64", "ts_i8", "ts_i16", "ts_i32", "ts_i64",
                "ts_f32", "ts_f64", "ts_ip", "ts_prefix", "ts_asn",
                "fm_bool", "fm_char", "fm_u8", "fm_u64", "fm_i8", "fm_i64", "fm_f64", "fm_ip", "fm_asn",
                "f64_floor", "f64_ceil", "f64_round", "f64_abs", "f64_sqrt", "f64_pow", "f64_is_nan", "f64_is_infinite",
                "f64_is_finite", "f32_floor", "f32_ceil", "f32_round", "f32_abs", "f32_sqrt", "f32_pow", "f32_is_nan",
                "f32_is_infinite", "f32_is_finite",
                "ip_eq", "ip_eqop", "ip_neop", "ip_is_ipv4", "ip_is_ipv6", "ip_to_canonical", "ip_localhostv4", "ip_localhostv6",
                "p_new", "p_div", "p_addr", "p_min_addr", "p_max_addr", "p_len", "p_eq", "p_eqop", "p_neop",
            ];
            let m = *self.pick(METHODS);
            let s = self.string();
            let a: Vec<Value> = match m {
                "s_append" | "s_plus" => vec![json!(s), json!(self.string())],
                "s_eq" | "s_eqop" | "s_neop" => {
                    let t = if self.below(2) == 0 { s.clone() } else { self.string() };
                    vec![json!(s), json!(t)]
                }
                "s_contains" | "s_starts_with" | "s_ends_with" | "s_split" | "s_strip_prefix" | "s_strip_suffix" => {
                    let n = match (m, self.below(3)) {
                        ("s_starts_with" | "s_strip_prefix", 0) => s[..self.below(s.len() as u64 + 1) as usize].to_vec(),
                        ("s_ends_with" | "s_strip_suffix", 0) => s[self.below(s.len() as u64 + 1) as usize..].to_vec(),
                        _ => self.needle(&s),
                    };
                    vec![json!(s), json!(n)]
                }
                "s_to_lowercase" | "s_to_uppercase" | "s_trim" | "s_trim_start" | "s_trim_end" | "s_to_string" | "s_fmt"
                | "b_len" | "b_list" | "c_len" | "c_list" | "ln_len" | "ln_list" | "s_from_chars" => vec![json!(s)],
                "s_repeat" => vec![json!(s), json!(self.below(5))],
                "s_replace" => {
                    let f = self.needle(&s);
                    let t = self.string_over(ALPHA, 3);
                    vec![json!(s), json!(f), json!(t)]
                }
                "s_splitn" | "s_rsplitn" => {
                    let n = if self.below(12) == 0 { super::HUGE } else { self.below(6) };
                    let p = self.needle(&s);
                    vec![json!(s), json!(n), json!(p)]
                }
                "l_join" => {
                    let k = self.below(5);
                    let l: Vec<Vec<u32>> = (0..k).map(|_| self.string_over(ALPHA, 4)).collect();
                    vec![json!(l), json!(self.string_over(ALPHA, 2))]
                }
                "b_get" => {
                    let bl: usize = s.iter().map(|c| char::from_u32(*c).unwrap().len_utf8()).sum();
                    vec![json!(s), json!(self.index(bl))]
                }
                "b_slice" => {
                    let bl: usize = s.iter().map(|c| char::from_u32(*c).unwrap().len_utf8()).sum();
                    vec![json!(s), json!(self.index(bl)), json!(self.index(bl))]
                }
                "c_get" => vec![json!(s), json!(self.index(s.len()))],
                "c_slice" => vec![json!(s), json!(self.index(s.len())), json!(self.index(s.len()))],
                "ln_get" => {
                    let nl = s.iter().filter(|c| **c == 10).count();
                    vec![json!(s), json!(self.index(nl))]
                }
                "ln_slice" => {
                    let nl = s.iter().filter(|c| **c == 10).count();
                    vec![json!(s), json!(self.index(nl)), json!(self.index(nl))]
                }
                "sb_run" => {
                    let init = if self.below(2) == 0 { json!([]) } else { json!([s]) };
                    let ops: Vec<Value> = (0..self.below(7))
                        .map(|_| match self.below(4) {
                            0 => json!({"k": 1, "c": *self.pick(ALPHA)}),
                            1 => json!({"k": 2, "s": self.string_over(ALPHA, 4)}),
                            2 => json!({"k": 3, "c": *self.pick(ALPHA)}),
                            _ => json!({"k": 4, "s": self.string_over(ALPHA, 4)}),
                        })
                        .collect();
                    vec![init, json!(ops)]
                }
                "ts_bool" | "fm_bool" => vec![json!(self.below(2) == 0)],
                "ts_char" | "fm_char" => vec![json!(*self.pick(ALPHA))],
                "ts_u8" | "fm_u8" | "ts_i8" | "fm_i8" => vec![json!(self.int_bytes(1))],
                "ts_u16" | "ts_i16" => vec![json!(self.int_bytes(2))],
                "ts_u32" | "ts_i32" | "ts_asn" | "fm_asn" => vec![json!(self.int_bytes(4))],
                "ts_u64" | "fm_u64" | "ts_i64" | "fm_i64" => vec![json!(self.int_bytes(8))],
                "ts_f32" | "ts_f64" | "fm_f64" => vec![self.float(999, 3)],
                "ts_ip" | "fm_ip" | "ip_is_ipv4" | "ip_is_ipv6" | "ip_to_canonical" => vec![self.ip()],
                "ip_eq" | "ip_eqop" | "ip_neop" => {
                    let a = self.ip();
                    let b = if self.below(2) == 0 { a.clone() } else { self.ip() };
                    vec![a, b]
                }
                "ip_localhostv4" | "ip_localhostv6" => vec![],
                "ts_prefix" | "p_new" | "p_div" | "p_addr" | "p_min_addr" | "p_max_addr" | "p_len" => {
                    let a = self.ip();
                    let n = self.plen(&a);
                    vec![a, json!(n)]
                }
                "p_eq" | "p_eqop" | "p_neop" => {
                    let a = self.ip();
                    let n = self.plen(&a);
                    let (b, k) = match self.below(3) {
                        0 => (a.clone(), n),
                        1 => (a.clone(), self.plen(&a)),
                        _ => {
                            let b = self.ip();
                            let k = self.plen(&b);
                            (b, k)
                        }
                    };
                    vec![a, json!(n), b, json!(k)]
                }
                "f64_sqrt" | "f32_sqrt" => {
                    // exact cases only: squares of small dyadic numbers, negatives, specials
                    let x = self.float(60, 6);
                    if x["cls"] == "fin" && self.below(4) != 0 {
                        let n = x["num"].as_i64().unwrap();
                        let e = x["exp"].as_i64().unwrap();
                        vec![json!({"cls": "fin", "num": n * n, "exp": if n == 0 { 0 } else { 2 * e }})]
                    } else if x["cls"] == "fin" {
                        let n = x["num"].as_i64().unwrap();
                        vec![json!({"cls": "fin", "num": -n.abs(), "exp": if n == 0 { 0 } else { x["exp"].as_i64().unwrap() }})]
                    } else {
                        vec![x]
                    }
                }
                "f64_pow" | "f32_pow" => {
                    // exact cases only (Builtins.tla FPow): small bases, small integral exponents, specials;
                    // a negative exponent needs a power of two, a fractional one a negative base (-> NaN)
                    let mut x = self.float(7, 2);
                    let y = match self.below(6) {
                        0 => self.float(3, 1),
                        _ => {
                            let k = self.below(6) as i64;
                            let mut n = k;
                            let mut e = 0;
                            while n != 0 && n % 2 == 0 {
                                n /= 2;
                                e += 1;
                            }
                            let neg = self.below(4) == 0;
                            json!({"cls": "fin", "num": if neg { -n } else { n }, "exp": e})
                        }
                    };
                    if x["cls"] == "fin" && y["cls"] == "fin" && x["num"] != 0 && y["num"] != 0 {
                        let xn = x["num"].as_i64().unwrap();
                        let xe = x["exp"].as_i64().unwrap();
                        let yn = y["num"].as_i64().unwrap();
                        let ye = y["exp"].as_i64().unwrap();
                        if ye < 0 {
                            x = json!({"cls": "fin", "num": -xn.abs(), "exp": xe});
                        } else if yn < 0 {
                            x = json!({"cls": "fin", "num": xn.signum(), "exp": xe});
                        }
                    }
                    vec![x, y]
                }
                m if m.starts_with("f32_") => vec![self.float(4000, 8)],
                m if m.starts_with("f64_") => vec![self.float(1_000_000, 12)],
                _ => panic!("harness: generator has no arguments for {m}"),
            };
            (m.to_string(), a)
        }
    }
}
