//! C13 replay: module trees rendered from `Scopes` configurations are given to
//! the real compiler BOTH in memory (`FileSpec` / `FileTree::file_spec`) and on
//! disk (temporary directory + `FileTree::read`), compiled, and observed:
//!
//!  * compile ok / error (kinds via `roto::verif::report_kinds`, first message line),
//!  * the tag returned by the probing function (`get_function::<fn(i32) -> i32>`),
//!  * for every name of the case's `get` list: the tag returned by the function
//!    retrieved under that module path, or `null` when it cannot be retrieved.
//!
//! No expectation is computed here; the comparison with the specification's
//! expected observation happens in lib/checks/c13.py.
//!
//! Case: {"files":[{"path":"a/mod.roto","src":".."},..],      (disk route; first must not be assumed)
//!        "mem":{"name":"pkg","src":"..","dir":true,"children":[..]} | null,   (memory route)
//!        "probe":"a.probe","arg":7,"get":["f","a.f",..]}
use std::io::Write;

use roto::{FileSpec, FileTree, NoCtx, Runtime, SourceFile};
use rvh::batch::{Progress, parse_args, run_batch};
use serde_json::{Value, json};

fn source(name: &str, module: &str, src: &str) -> SourceFile {
    SourceFile {
        name: name.into(),
        module_name: module.into(),
        contents: src.into(),
        location_offset: 0,
        children: Vec::new(),
    }
}

fn spec_of(v: &Value, path: &str) -> FileSpec {
    let name = v["name"].as_str().unwrap();
    let here = if path.is_empty() { name.to_string() } else { format!("{path}/{name}") };
    let file = source(&format!("{here}.roto"), name, v["src"].as_str().unwrap());
    let children = v["children"].as_array().cloned().unwrap_or_default();
    if v["dir"].as_bool().unwrap_or(false) || !children.is_empty() {
        FileSpec::Directory(file, children.iter().map(|c| spec_of(c, &here)).collect())
    } else {
        FileSpec::File(file)
    }
}

fn observe(rt: &Runtime<NoCtx>, tree: Result<FileTree, roto::RotoReport>, case: &Value) -> Value {
    let tree = match tree {
        Ok(t) => t,
        Err(e) => {
            return json!({"compile": "err", "kinds": roto::verif::report_kinds(&e), "msg": first_line(&e.to_string())});
        }
    };
    let mut pkg = match tree.compile(rt) {
        Ok(p) => p,
        Err(e) => {
            return json!({"compile": "err", "kinds": roto::verif::report_kinds(&e), "msg": first_line(&e.to_string())});
        }
    };
    let arg = case["arg"].as_i64().unwrap_or(0) as i32;
    let probe = match case["probe"].as_str() {
        None => Value::Null,
        Some(name) => match pkg.get_function::<fn(i32) -> i32>(name) {
            Ok(f) => json!(f.call(arg)),
            Err(e) => json!({"err": first_line(&e.to_string())}),
        },
    };
    let mut got = serde_json::Map::new();
    for n in case["get"].as_array().map(|a| a.as_slice()).unwrap_or(&[]) {
        let n = n.as_str().unwrap();
        let v = match pkg.get_function::<fn() -> i32>(n) {
            Ok(f) => json!(f.call()),
            Err(_) => Value::Null,
        };
        got.insert(n.to_string(), v);
    }
    json!({"compile": "ok", "probe": probe, "get": got})
}

fn first_line(s: &str) -> String {
    // strip ANSI escapes, keep the first non-empty line (the error headline)
    let mut out = String::new();
    let mut it = s.chars().peekable();
    while let Some(c) = it.next() {
        if c == '\u{1b}' {
            for d in it.by_ref() {
                if d.is_ascii_alphabetic() {
                    break;
                }
            }
        } else {
            out.push(c);
        }
    }
    out.lines().map(|l| l.trim()).find(|l| !l.is_empty()).unwrap_or("").chars().take(200).collect()
}

fn main() {
    let args = parse_args();
    let rt = Runtime::new();
    run_batch(&args, |case: &Value, prog: &Progress| -> Value {
        let mut res = serde_json::Map::new();
        // route 1: in memory
        prog.step(0);
        if !case["mem"].is_null() {
            let tree = FileTree::file_spec(spec_of(&case["mem"], ""));
            res.insert("mem".into(), observe(&rt, Ok(tree), case));
        }
        // route 2: on disk, discovered by FileTree::read
        prog.step(1);
        if let Some(files) = case["files"].as_array() {
            let dir = tempfile::tempdir().expect("tempdir");
            for f in files {
                let p = dir.path().join(f["path"].as_str().unwrap());
                std::fs::create_dir_all(p.parent().unwrap()).unwrap();
                let mut h = std::fs::File::create(&p).unwrap();
                h.write_all(f["src"].as_str().unwrap().as_bytes()).unwrap();
            }
            for d in case["dirs"].as_array().map(|a| a.as_slice()).unwrap_or(&[]) {
                std::fs::create_dir_all(dir.path().join(d.as_str().unwrap())).unwrap();
            }
            prog.step(2);
            let tree = FileTree::read(dir.path());
            res.insert("disk".into(), observe(&rt, tree, case));
        }
        Value::Object(res)
    });
}
