//! Drop-tracked host types used as list elements / script values.
//!
//! `LIVE_*` count the instances currently alive; the ownership event log
//! (create/clone/drop with instance ids) is used by the C03/C11 monitors.
use std::sync::Mutex;
use std::sync::atomic::{AtomicI64, AtomicU64, Ordering};

pub static LIVE24: AtomicI64 = AtomicI64::new(0);
pub static LIVE0: AtomicI64 = AtomicI64::new(0);
pub static NEXT_ID: AtomicU64 = AtomicU64::new(1);

/// ownership events: (kind, id, src)
pub static EVENTS: Mutex<Vec<(&'static str, u64, u64)>> = Mutex::new(Vec::new());
pub static LOG_EVENTS: std::sync::atomic::AtomicBool = std::sync::atomic::AtomicBool::new(false);

fn ev(kind: &'static str, id: u64, src: u64) {
    if LOG_EVENTS.load(Ordering::Relaxed) {
        EVENTS.lock().unwrap().push((kind, id, src));
    }
}

pub fn take_events() -> Vec<(&'static str, u64, u64)> {
    std::mem::take(&mut *EVENTS.lock().unwrap())
}

/// 24-byte tracked type; equality by `tag` only.
#[derive(Debug)]
pub struct Tr24 {
    pub tag: u64,
    pub id: u64,
    pub check: u64,
}

impl Tr24 {
    pub fn new(tag: u64) -> Self {
        LIVE24.fetch_add(1, Ordering::SeqCst);
        let id = NEXT_ID.fetch_add(1, Ordering::SeqCst);
        ev("create", id, 0);
        Tr24 { tag, id, check: tag ^ 0xA5A5_5A5A_DEAD_BEEF }
    }
    pub fn valid(&self) -> bool {
        self.check == self.tag ^ 0xA5A5_5A5A_DEAD_BEEF
    }
}

impl Clone for Tr24 {
    fn clone(&self) -> Self {
        LIVE24.fetch_add(1, Ordering::SeqCst);
        let id = NEXT_ID.fetch_add(1, Ordering::SeqCst);
        ev("clone", id, self.id);
        Tr24 { tag: self.tag, id, check: self.check }
    }
}

impl Drop for Tr24 {
    fn drop(&mut self) {
        LIVE24.fetch_sub(1, Ordering::SeqCst);
        ev("drop", self.id, 0);
        // poison so that a double drop / use after drop shows as an invalid value
        self.check = 0x0BAD_0BAD_0BAD_0BAD;
    }
}

impl PartialEq for Tr24 {
    fn eq(&self, other: &Self) -> bool {
        self.tag == other.tag
    }
}

/// zero-sized tracked type
#[derive(Debug)]
pub struct Tr0;

impl Tr0 {
    pub fn new() -> Self {
        LIVE0.fetch_add(1, Ordering::SeqCst);
        Tr0
    }
}
impl Default for Tr0 {
    fn default() -> Self {
        Self::new()
    }
}
impl Clone for Tr0 {
    fn clone(&self) -> Self {
        if std::env::var_os("TR_DEBUG").is_some() { eprintln!("Tr0 clone"); }
        LIVE0.fetch_add(1, Ordering::SeqCst);
        Tr0
    }
}
impl Drop for Tr0 {
    fn drop(&mut self) {
        if std::env::var_os("TR_DEBUG").is_some() { eprintln!("Tr0 drop"); }
        LIVE0.fetch_sub(1, Ordering::SeqCst);
    }
}
impl PartialEq for Tr0 {
    fn eq(&self, _: &Self) -> bool {
        true
    }
}
