//! Batch runner used by all replay binaries.
//!
//! `bin <in.ndjson> <out.ndjson> [--start K] [--stall SECS] [extra args...]`
//!
//! Cases are processed in order starting at K; one result line `{"i":idx,"r":..}`
//! is appended (and flushed) per case.  A panic inside the code under test is
//! data: `{"i":idx,"panic":msg}`.  A watchdog thread turns a stall (no progress
//! for SECS seconds) into `{"i":idx,"hang":true,"step":s}` and exits with code 3;
//! a crash (signal) leaves the output without a line for that case; in both
//! situations the python driver records the outcome and resumes at idx+1.
use std::io::Write;
use std::sync::atomic::{AtomicI64, AtomicU64, Ordering};
use std::sync::{Arc, Mutex};
use std::time::{Duration, Instant};

use serde_json::{Value, json};

pub struct Progress {
    step: AtomicI64,
    beat: AtomicU64,
}

impl Progress {
    /// Record that step `s` of the current case is about to run.
    pub fn step(&self, s: i64) {
        self.step.store(s, Ordering::SeqCst);
        self.beat.fetch_add(1, Ordering::SeqCst);
    }
}

pub struct Args {
    pub input: String,
    pub output: String,
    pub start: usize,
    pub stall: u64,
    pub extra: Vec<String>,
}

pub fn parse_args() -> Args {
    let mut it = std::env::args().skip(1);
    let input = it.next().expect("input path");
    let output = it.next().expect("output path");
    let mut start = 0;
    let mut stall = 20;
    let mut extra = vec![];
    while let Some(a) = it.next() {
        match a.as_str() {
            "--start" => start = it.next().unwrap().parse().unwrap(),
            "--stall" => stall = it.next().unwrap().parse().unwrap(),
            _ => extra.push(a),
        }
    }
    Args { input, output, start, stall, extra }
}

pub fn run_batch<F>(args: &Args, mut f: F)
where
    F: FnMut(&Value, &Progress) -> Value,
{
    crate::util::quiet_panics();
    let cases = crate::util::read_ndjson(&args.input);
    let out = std::fs::OpenOptions::new()
        .create(true)
        .append(true)
        .open(&args.output)
        .expect("open output");
    let out = Arc::new(Mutex::new(out));
    let prog = Arc::new(Progress { step: AtomicI64::new(-1), beat: AtomicU64::new(0) });
    let cur = Arc::new(AtomicI64::new(-1));

    {
        let out = out.clone();
        let prog = prog.clone();
        let cur = cur.clone();
        let stall = args.stall;
        std::thread::spawn(move || {
            let mut last = (u64::MAX, -2i64);
            let mut since = Instant::now();
            loop {
                std::thread::sleep(Duration::from_millis(100));
                let now = (prog.beat.load(Ordering::SeqCst), cur.load(Ordering::SeqCst));
                if now != last {
                    last = now;
                    since = Instant::now();
                } else if now.1 >= 0 && since.elapsed() > Duration::from_secs(stall) {
                    // Deliberately do not take the lock with blocking semantics forever:
                    // the main thread only holds it while writing a finished line.
                    let mut o = out.lock().unwrap();
                    let line = json!({"i": now.1, "hang": true, "step": prog.step.load(Ordering::SeqCst)});
                    let _ = writeln!(o, "{}", line);
                    let _ = o.flush();
                    unsafe { libc::_exit(3) };
                }
            }
        });
    }

    for (i, case) in cases.iter().enumerate().skip(args.start) {
        prog.step.store(-1, Ordering::SeqCst);
        cur.store(i as i64, Ordering::SeqCst);
        prog.beat.fetch_add(1, Ordering::SeqCst);
        let r = std::panic::catch_unwind(std::panic::AssertUnwindSafe(|| f(case, &prog)));
        let line = match r {
            Ok(v) => json!({"i": i, "r": v}),
            Err(e) => json!({"i": i, "panic": crate::util::panic_message(&e), "step": prog.step.load(Ordering::SeqCst)}),
        };
        let mut o = out.lock().unwrap();
        writeln!(o, "{}", line).unwrap();
        o.flush().unwrap();
    }
    cur.store(-1, Ordering::SeqCst);
}
