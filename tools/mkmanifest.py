#!/usr/bin/env python3
"""Regenerate /verif/MANIFEST.json from tools/manifest_data.py and validate it."""
import json
import os
import subprocess
import sys

HERE = os.path.dirname(os.path.abspath(__file__))
ROOT = os.path.dirname(HERE)
sys.path.insert(0, HERE)
import manifest_data as md  # noqa: E402

ALL = ["C%02d" % i for i in range(1, 21)]


def main():
    checks = []
    for pid in ALL:
        c = md.CHECKS.get(pid)
        if not c:
            continue
        checks.append({
            "property_id": pid,
            "quick_cmd": "./check %s --tier quick" % pid,
            "thorough_cmd": "./check %s --tier thorough" % pid,
            "evidence_file": "/verif/evidence/%s.json" % pid,
            "replay_cmd_template": "./check %s --replay {path}" % pid,
            "engine": c.get("engine", "tlc+rvh"),
            "level_claimed": {"category": c.get("category", "model_checking"), "text": c["text"],
                              "design_ref": c.get("design_ref", "DESIGN.md section 4, " + pid)},
            "level_note": c["note"],
            "technique": c["technique"],
        })
    na = [{"property_id": p, "reason": md.NOT_APPLICABLE[p]} for p in ALL if p in md.NOT_APPLICABLE]
    claimed = {c["property_id"] for c in checks}
    for p in ALL:
        if p not in claimed and p not in md.NOT_APPLICABLE:
            na.append({"property_id": p, "reason": "check not built yet (planned, see DESIGN.md section 4); no claim is made for this property at this commit"})
    m = {
        "version": 1,
        "setup_cmd": "cd /verif/harness && CARGO_NET_OFFLINE=true cargo build --offline",
        "hooks": md.HOOKS,
        "engines": md.ENGINES,
        "checks": checks,
        "notes": md.NOTES,
        "not_applicable": sorted(na, key=lambda x: x["property_id"]),
    }
    with open(os.path.join(ROOT, "MANIFEST.json"), "w") as f:
        json.dump(m, f, indent=1)
        f.write("\n")
    # validate with the tooling venv's jsonschema when available
    code = ("import json,jsonschema,sys;"
            "jsonschema.validate(json.load(open('%s/MANIFEST.json')),json.load(open('/root/.vp/MANIFEST.schema.json')));"
            "print('MANIFEST.json valid')" % ROOT)
    for py in ("python3-vt", "python3"):
        try:
            r = subprocess.run([py, "-c", code], capture_output=True, text=True)
        except FileNotFoundError:
            continue
        if r.returncode == 0:
            print(r.stdout.strip())
            return 0
        if "No module named" in r.stderr:
            continue
        print(r.stderr)
        return 1
    print("jsonschema not available; not validated")
    return 0


if __name__ == "__main__":
    sys.exit(main())
