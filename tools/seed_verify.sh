#!/bin/bash
# tools/seed_verify.sh <PID> <mN> [check ids...]
# Confirms an independently produced breaking change (/tmp/seed_out/<PID>/<mN>/{patch.diff,demo.rs,README.md}):
#   1. the patch applies to /repo HEAD (scratch worktree), builds, and the existing suite passes with it
#   2. the demonstration passes without the patch and fails with it
#   3. runs the given checks (default: <PID>) against the patched tree via tools/mutant_run.sh
# and stores everything under /verif/seeded/<PID>_<mN>/ (patch.diff, demo.rs, README.md, meta.json).
set -u
PID=$1; M=$2; shift 2
CHECKS=${*:-$PID}
SRC=/tmp/seed_out/$PID/$M
OUT=/verif/seeded/${PID}_$M
WT=/tmp/seedv_${PID}_$M
[ -f "$SRC/patch.diff" ] || { echo "no patch"; exit 2; }
mkdir -p "$OUT"; cp "$SRC/patch.diff" "$SRC/demo.rs" "$SRC/README.md" "$OUT/" 2>/dev/null
git -C /repo worktree add --detach "$WT" HEAD >/dev/null 2>&1 || { echo worktree failed; exit 2; }
trap 'git -C /repo worktree remove --force "$WT" >/dev/null 2>&1; rm -rf "$WT"' EXIT
cd "$WT"
# how to run the demo
NAME=none
if [ -f "$SRC/run_demo.sh" ]; then
  cp "$SRC/run_demo.sh" "$OUT/"; RUN="bash $SRC/run_demo.sh $SRC"
elif grep -qE -- "--test +[A-Za-z0-9_]+" "$SRC/README.md"; then
  NAME=$(grep -oE -- "--test +[A-Za-z0-9_]+" "$SRC/README.md" | head -1 | awk '{print $2}'); KIND=test
  mkdir -p tests; cp "$SRC/demo.rs" tests/$NAME.rs; RUN="cargo test --offline --test $NAME"
elif grep -qE -- "--example +[A-Za-z0-9_]+" "$SRC/README.md"; then
  NAME=$(grep -oE -- "--example +[A-Za-z0-9_]+" "$SRC/README.md" | head -1 | awk '{print $2}'); KIND=example
  cp "$SRC/demo.rs" examples/$NAME.rs; RUN="cargo run --offline --example $NAME"
else echo "cannot tell how to run the demo"; exit 2; fi
timeout 1500 $RUN >/tmp/seedv_$$.a 2>&1; A=$?
git apply "$SRC/patch.diff" || { echo "patch does not apply"; exit 2; }
timeout 1500 cargo build --offline >/tmp/seedv_$$.b 2>&1; B=$?
timeout 1500 $RUN >/tmp/seedv_$$.c 2>&1; C=$?
rm -f tests/$NAME.rs examples/$NAME.rs
timeout 3000 cargo test --workspace --no-fail-fast --offline >/tmp/seedv_$$.t 2>&1; T=$?
NFAIL=$(grep -E "^test result: FAILED|failed;" /tmp/seedv_$$.t | grep -vc " 0 failed")
cd /verif
DET=""
for id in $CHECKS; do
  LINES_MAX=2 tools/mutant_run.sh "$SRC/patch.diff" $id > /tmp/seedv_$$.m 2>&1
  rc=$(grep -oE "^exit=[0-9]+" /tmp/seedv_$$.m | tail -1 | cut -d= -f2)
  first=$(grep -A1 -m1 "^VIOLATION" /tmp/seedv_$$.m | tail -1 | cut -c1-300)
  DET="$DET{\"check\":\"$id\",\"exit\":${rc:-2},\"first\":$(python3 -c 'import json,sys; print(json.dumps(sys.argv[1]))' "$first")},"
done
python3 - "$OUT" "$PID" "$M" "$A" "$B" "$C" "$T" "$NFAIL" "[${DET%,}]" "$RUN" <<'PY'
import json,sys
out,pid,m,a,b,c,t,nfail,det,run=sys.argv[1:]
readme=open(out+"/README.md").read() if True else ""
meta={"breaks_property":pid,"id":pid+"_"+m,
 "what_it_needs_to_manifest":"see README.md (written by the independent sub-agent that produced the change)",
 "confirmed":{"demo_command":run,"demo_exit_without_patch":int(a),"build_exit_with_patch":int(b),"demo_exit_with_patch":int(c),
              "existing_suite_exit_with_patch":int(t),"existing_suite_failed_binaries":int(nfail)},
 "valid": int(a)==0 and int(b)==0 and int(c)!=0 and int(t)==0,
 "checks_run":json.loads(det)}
meta["caught_by"]=[d["check"] for d in meta["checks_run"] if d["exit"]==1]
json.dump(meta,open(out+"/meta.json","w"),indent=1)
print(json.dumps({k:meta[k] for k in ("id","valid","caught_by")}), meta["confirmed"])
PY
rm -f /tmp/seedv_$$.*
