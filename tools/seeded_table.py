#!/usr/bin/env python3
"""prints the markdown table of seeded/<id>/meta.json (used for DESIGN.md section 8.7)"""
import json, os, glob
rows = []
for d in sorted(glob.glob("/verif/seeded/C*_m*")):
    mp = os.path.join(d, "meta.json")
    if not os.path.exists(mp):
        continue
    m = json.load(open(mp))
    title = ""
    rp = os.path.join(d, "README.md")
    if os.path.exists(rp):
        title = open(rp).readline().strip().lstrip("# ").strip()
        for pre in (m["id"].replace("_", " / ") + " ", m["breaks_property"] + " / "):
            pass
    import re
    title = re.sub(r"^C\d\d\s*/\s*(m\d|change \d)\s*[-—:]*\s*", "", title)
    runs = ", ".join("%s:%s" % (c["check"], {0: "miss", 1: "caught"}.get(c["exit"], "tool-error %s" % c["exit"])) for c in m.get("checks_run", []))
    first = ", ".join(m.get("missed_at_first_run_by", [])) or "-"
    rows.append("| %s | %s | %s | %s | %s |" % (m["id"], title[:110], "yes" if m.get("valid") else "NO", first, runs))
table = "\n".join(["| id | change (one line, from the author's README) | confirmed valid | missed at first run by | latest result of the checks run against it |",
                   "|---|---|---|---|---|"] + rows)
import sys
if "--write" in sys.argv:
    # replace the block between the markers in DESIGN.md
    B, E = "<!-- SEEDED-TABLE-BEGIN -->", "<!-- SEEDED-TABLE-END -->"
    d = open("/verif/DESIGN.md").read()
    if "SEEDED-TABLE-PLACEHOLDER" in d:
        d = d.replace("SEEDED-TABLE-PLACEHOLDER", B + "\n" + E)
    i, j = d.index(B), d.index(E)
    d = d[:i + len(B)] + "\n" + table + "\n" + d[j:]
    open("/verif/DESIGN.md", "w").write(d)
    print("DESIGN.md updated: %d rows" % len(rows))
else:
    print(table)
