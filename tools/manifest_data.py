"""Data for MANIFEST.json (one entry per claimed property)."""

HOOKS = {
    "guard": "roto_verif",
    "enable": "RUSTFLAGS='--cfg roto_verif' (set in /verif/harness/.cargo/config.toml: the harness crate has a path dependency on /repo, so every check rebuilds /repo's working tree with the hooks compiled in)",
    "baseline_off_cmd": "cd /repo && (cargo nextest run --workspace --no-fail-fast --test-threads 8 --offline || cargo test --workspace --no-fail-fast --offline)",
    "source_commits": ["c89369c", "9f183fd"],
    "add_only": True,
}

ENGINES = [
    {"name": "tlc", "path": "/verif/spec", "serves_properties": [],
     "kind_free_text": "explicit TLA+ specifications checked with TLC 1.8 (exhaustive within small constants, -simulate beyond); TLC also acts as trace validator (Trace*.tla reading recorded ndjson) and as behaviour generator (REPLAY lines)"},
    {"name": "rvh", "path": "/verif/harness", "serves_properties": [],
     "kind_free_text": "Rust conformance harness (path dependency on /repo, built with --cfg roto_verif): replays TLC-generated behaviours into the real crate and records traces of the real crate for TLC; every batch runs in worker processes so that a crash is data"},
    {"name": "check", "path": "/verif/check", "serves_properties": [],
     "kind_free_text": "python driver: runs TLC, the harness, compares/validates, applies known_findings.json, writes evidence"},
]

NOTES = ("Technique family: model-based verification with explicit TLA+ specifications (spec/*.tla), TLC, and conformance "
         "binding in both directions (spec behaviours replayed into the implementation; implementation traces validated "
         "against the spec). Exit codes: 0 held, 1 VIOLATION, 2 tool error. known_findings.json lists genuine defects "
         "(known / fixed).")

NOT_APPLICABLE = {}

CHECKS = {
    "C15": {
        "text": "ListSeq.tla specifies lists as one shared growable array (heap of sequences + aliased handles, one action per API operation). TLC enumerates every behaviour up to a history bound from four initial configurations (incl. aliasing and growth boundaries) plus seeded walks, and checks the design invariants; every behaviour is replayed step by step into roto::List<T>, compiled scripts and alternating for six element kinds (u8, u64, String, nested List, zero-sized tracked, 24-byte tracked), comparing each result and the live-element count with the specification. Long random histories recorded from the real lists (growth to >1000 elements) are validated as ListSeq behaviours by TLC (TraceListSeq.tla).",
        "note": "Exhaustive only within the stated bounds (history length 2-4, 2-3 handles, 2 abstract values); element kinds are representatives; capacity only required >= len; a stalled operation (20 s without progress for microsecond operations) counts as non-termination.",
        "technique": "TLA+ spec (ListSeq) + TLC exhaustive behaviour generation replayed into the implementation + TLC trace validation of recorded histories",
    },
}
