"""Data for MANIFEST.json (one entry per claimed property)."""

HOOKS = {
    "guard": "roto_verif",
    "enable": "RUSTFLAGS='--cfg roto_verif' (set in /verif/harness/.cargo/config.toml: the harness crate has a path dependency on /repo, so every check rebuilds /repo's working tree with the hooks compiled in)",
    "baseline_off_cmd": "cd /repo && (cargo nextest run --workspace --no-fail-fast --test-threads 8 --offline || cargo test --workspace --no-fail-fast --offline)",
    "source_commits": ["c89369c", "9f183fd", "9ab63bf", "11a3b69", "6a48d12", "b4093ab", "ae7820e"],
    "add_only": True,
}

ENGINES = [
    {"name": "tlc", "path": "/verif/spec", "serves_properties": [],
     "kind_free_text": "explicit TLA+ specifications checked with TLC 1.8 (exhaustive within small constants, -simulate beyond); TLC also acts as trace validator (Trace*.tla reading recorded ndjson) and as behaviour generator (REPLAY lines)"},
    {"name": "rvh", "path": "/verif/harness", "serves_properties": [],
     "kind_free_text": "Rust conformance harness (path dependency on /repo, built with --cfg roto_verif): replays TLC-generated behaviours into the real crate and records traces of the real crate for TLC; every batch runs in worker processes so that a crash is data"},
    {"name": "check", "path": "/verif/check", "serves_properties": [],
     "kind_free_text": "python driver: runs TLC, the harness, compares/validates, applies known_findings.json, writes evidence"},
]

NOTES = ("Technique family: model-based verification with explicit TLA+ specifications (spec/*.tla), TLC, and conformance "
         "binding in both directions (spec behaviours replayed into the implementation; implementation traces validated "
         "against the spec). Exit codes: 0 held, 1 VIOLATION, 2 tool error. known_findings.json lists genuine defects "
         "(known / fixed).")

NOT_APPLICABLE = {}

CHECKS = {
    "C01": {
        "text": "RotoSem.tla is a definitional big-step interpreter of the language (fixed-width two's-complement integers as byte vectors in BitVec.tla - self-checked against native arithmetic on all 8-bit pairs - with wrapping + - *, truncating / and %, comparisons by the signedness of the type; IEEE floats on the exact fragment in Dyadic.tla; bool, char, if/match/while/for/blocks/return/recursive calls; literal typing incl. defaults and f32 rounding). Every native execution of a compiled script is recorded (program AST, host inputs, result, host-call log) and TLC accepts it iff RotoSem.Eval gives exactly that result and log (TraceSem.tla). Executions: one program per (type, operator) over all pairs of boundary operands for the 8 integer types, both float types and bool incl. compound assignment and unary minus; literal-typing programs; seeded random programs with nested expressions and control flow.",
        "note": "Float arithmetic only where results are exactly representable; integer division by zero and MIN / -1 are outside the domain (C10); u64 literals above i64::MAX are rejected by roto's parser and not generated; program size/nesting bounded by the generator; the harness contains no arithmetic (values only re-encoded).",
        "technique": "TLA+ definitional interpreter (RotoSem) + TLC trace validation of recorded native executions (operator matrix, literal matrix, seeded random programs)",
    },
    "C02": {
        "text": "RotoSem.tla gives records, enums, options and strings value semantics (the environment maps names to values) and lists reference semantics (a heap shared by all copies; a for loop re-reads the list each iteration); == / != are structural. Seeded random programs declare random record/enum types (fields of every scalar width, strings, options, lists, nested types), copy values, mutate the original or the copy (whole value, nested field, list push, push from inside the iterating for loop), then observe every leaf of both through logging host calls; match with bindings, guards and _, and ? are generated. TLC accepts a recorded native execution iff its result and observation log equal RotoSem.Eval.",
        "note": "Type shapes bounded (<= 4 fields, <= 3 variants, nesting <= 2); registered host aggregate types and the Rust boundary are C05/C15's business.",
        "technique": "TLA+ definitional interpreter (RotoSem) + TLC trace validation of recorded native executions of copy/mutate/observe programs",
    },

    "C07": {
        "text": "Typing.tla is a bidirectional typing judgement WellTyped for a single-module fragment (all integer and float widths, bool, String, (), Option, List, named records and enums, anonymous record literals, filtermap verdicts; unification with integer-literal / must-be-signed / float / unconstrained / never types; match exhaustiveness and reachability; placement of ? / return / accept / reject; local-only assignment; one declaration per scope; type and constant cycles). MCTyping.tla holds 16 parameterised seed templates and 27 single-edit families Break(family, site) covering every rule of the statement; TLC checks SeedWellTyped and, for every applicable site of every family on every seed, MutantIllTyped, and emits each certified mutant (6k quick / 20k thorough); every mutant is printed to source and compiled by the real compiler and must be rejected with a type error report. Seeded random well-typed-by-construction programs and 19 blind random edits (3.4k / 29k compile events) are judged one by one by TLC (TraceTyping.tla): a program the judgement rejects must not compile.",
        "note": "Completeness is not claimed (a rejected well-typed program is a logged note). The judgement is deliberately more permissive than roto where inference order matters, so such conflicts are not certified. Not covered: f-strings, methods, script-declared generics, imports, runtime items. Error text is not compared, only the error kind; a crash after acceptance is reported as a C06-type finding.",
        "technique": "TLA+ typing judgement (Typing) + TLC-certified single-edit mutants of TLC-checked seeds replayed into the compiler + TLC trace validation of random programs and blind edits",
    },
    "C08": {
        "text": "RotoSem.tla threads the ordered log of host calls through a strictly left-to-right big-step evaluation (operands, arguments with the receiver first, record fields, enum constructor arguments, list elements, f-string parts; && / || short-circuit; one arm of if/match with guards in source order; loop condition once more than the body; nothing after return or ? on None; x op= e reads x first). Seeded random programs whose sub-expressions at every position call logging host functions are run natively; TLC accepts a recorded execution iff the host-call sequence with argument values and the result equal RotoSem.Eval.",
        "note": "Only documented evaluation orders are asserted; program size/nesting bounded by the generator.",
        "technique": "TLA+ definitional interpreter (RotoSem, effect log) + TLC trace validation of recorded native executions",
    },
    "C12": {
        "text": "Conc.tla models threads calling cloned handles (private frames, read-only constants, registered closures that update captured state atomically iff the capture is Sync), concurrent compile/drop under the registry lock, and the Register guard; TLC checks ResultOK, NoLostUpdate, LiveExact, CallValid, RegistryComplete, QuiescentOK and deadlock freedom for all interleavings of small thread programs, and exhibits the lost update when the guard is removed. Real runs (2-16 threads x calls on shared handles while other threads compile, call and drop) are recorded with per-thread sequence numbers and validated by TLC (TraceConc.tla): every result equals the single-threaded F(args), the closure hands out exactly 0..n-1, accounting balances at quiescence. 40 spec-enumerated safe-Rust probes (kind x route x Send/Sync class) must be rejected by rustc exactly when the specification's guard rejects.",
        "note": "Real runs sample OS schedules, they do not enumerate them; a data race that changes no result, counter or total and never crashes is invisible; a handle with a !Send context type may be sent on its own by design.",
        "technique": "TLA+ spec (Conc) + TLC exhaustive interleavings + TLC trace validation of real multi-threaded runs + spec-enumerated rustc compile-fail probes",
    },
    "C20": {
        "text": "For every generated non-recursive script (scalars, records, enums, strings, host calls) a cfg-guarded hook lowers the script once, runs the LIR evaluator on that lowered program (panics caught) and hands the same lowered program to the JIT. TLC (LirAgree in TraceSem.tla) accepts each event iff the evaluator panicked or produced the same value and the same host-call sequence as the compiled code, and the compiled outcome equals RotoSem.Eval (three-way).",
        "note": "main takes inputs through host functions and returns a scalar; an evaluator panic is an allowed outcome; about a fifth of the evaluator runs complete with a value (counted in the evidence).",
        "technique": "TLA+ relation LirAgree over RotoSem + TLC trace validation of paired evaluator/JIT executions of the same lowered IR",
    },
    "C04": {
        "text": "TypeGate.tla defines Maps (Rust type -> Roto type, recursively through Option/List/Result/Verdict, registered Val types by identity), Gate (same arity, every parameter and the return Maps-equal) and the filtermap rule (Verdict of its payload types, () for unused/bare sides, literals default to i32/f64). TLC enumerates complete verdict tables (860x860 single-position pairs at depth <=1 in return and parameter position, 575 filtermap forms, arity ladder 0..8 x name classes; thorough 1412^2/1196^2 with depth 2-3) and each table is replayed into the real crate: get_function::<F>(name) for every F of a compiled-in table of 3145 Rust fn types generated from TLC's universe; the handed-out set must equal TLC's set. Seeded random retrievals are recorded and validated by TLC in both directions (TraceTypeGate.tla: result = ok <=> Gate).",
        "note": "Rust side limited to the compiled table (arity <=7, depth <=3 with restricted leaf sets beyond depth 1); single-file scripts; error kind recorded, not asserted; smoke calls only for parameterless functions.",
        "technique": "TLA+ spec (TypeGate) + TLC exhaustive verdict tables replayed into get_function over a generated Rust type table + TLC trace validation of random retrievals",
    },
    "C11": {
        "text": "Lifetime.tla models runtime, packages, handles and the resources they hold (module = machine code + script constants; registered constant; closure capture) with holder sets and reference counts; invariants RefCountsExact, FreedIffUnheld, CallValid and the action properties NoResurrection and Isolation are model-checked on the complete state graph within the bounds. Every TLC behaviour up to length 6 (quick) / 8 (thorough), five forced prefixes and seeded simulation walks are replayed on real roto objects (drop-tracked host values in script constants, registered constant, closure capture; move-to-thread); per-step live-instance counts and call results are compared with the specification. Seeded random long histories executed on the real crate are validated by TLC (TraceLifetime.tla).",
        "note": "Exhaustive for <=2 script versions, <=2 packages, <=3 handles, <=2 runtimes up to the stated history length; machine code is observed only indirectly (calls keep returning the specified value; a worker signal is a violation); JIT memory itself is not counted.",
        "technique": "TLA+ spec (Lifetime) + TLC exhaustive state graph and behaviour generation replayed on real objects + TLC trace validation of recorded histories",
    },
    "C13": {
        "text": "Scopes.tla specifies file discovery (pkg.roto, name.roto, name/mod.roto), the scope graph and the lookup rules (declarations, then imports, then outward; later segments direct members only; leading supers; absolute pkg; order-independent import fixpoint). TLC enumerates file sets x item placements x probing module x nine reference-form families x block levels and computes the designated item / error and the export set; every configuration is compiled by the real crate in memory and from disk and compared (compile outcome, tag returned through the reference, get_function by module path). Seeded random larger configurations are observed from the real compiler and validated by TLC against Scopes.Expected (TraceScopes.tla).",
        "note": "Items are functions f/g and constant k; trees of depth <=2/width <=2 (+ one depth-3 tree), up to 7 modules; duplicate import aliases in one scope are unspecified and only checked for no crash; error messages not compared.",
        "technique": "TLA+ spec (Scopes) + TLC enumeration of configurations replayed into the compiler (memory and disk) + TLC trace validation of random configurations",
    },
    "C14": {
        "text": "ConstOrder.tla: EvalConst(c) is enabled iff c is unevaluated and every constant it reaches (also through functions) is evaluated; Reject is enabled iff some constant reaches itself or a context use and nothing has been evaluated; invariants Once, DepOrder, RejectFirst, ValuesAgree. TLC enumerates every dependency graph on <=3 items (all kind assignments, edge sets, context users), simulates 4-6 items with injected cycle/context use, and emits verdict, dependencies and spec-computed values; python renders each as a multi-module script (four layouts, permuted declaration order, many reference forms), the harness compiles it logging every mark() host call made during compilation, the outcome and later observed values; results are compared with the spec and the recorded event traces (plus seeded 7-10 item graphs) are validated by TLC as ConstOrder behaviours (any topological order passes).",
        "note": "Only i32 constants of a fixed mark/fuel shape; only accept/reject compared (not error text); the order among independent constants is free.",
        "technique": "TLA+ spec (ConstOrder) + TLC graph enumeration replayed as scripts + TLC trace validation of the compile-time host-call log",
    },
    "C16": {
        "text": "ListConc.tla models every list operation as a sequence of segments between the pausing points of the real code (each Mutex::lock in list.rs; the start of the element clone in get), with allocation generations, held locks, and per-operation candidate results. TLC checks NoStaleUse, Linearizable, TypeOK and deadlock freedom exhaustively (2 threads x 2 ops; thorough 3x1, 2x3, 3x2) for the locking discipline the code actually follows, which three probe schedules determine on the real code (constants FixGet/FixSGet/FixEq/FixSEq/FixConcat). Behaviours generated by TLC (all of the 1-operation model + seeded simulation walks) are imposed step by step on real List handles shared by real threads through the cfg-guarded schedule points; after every step events, pausing point, completion and result must equal the specification's; a stale pointer use, a blocked thread or a non-linearizable result confirmed on the real code is a violation.",
        "note": "Pausing points are the cfg-guarded hooks before every lock in list.rs plus the Clone of the harness element type during get; code between two pausing points runs unobserved; a change that adds locking the spec does not anticipate shows as a lock-structure divergence.",
        "technique": "TLA+ spec (ListConc) + TLC exhaustive interleavings + TLC-generated schedules imposed on real threads via schedule points",
    },
    "C18": {
        "text": "Registration.tla specifies Runtime::add declaratively (scope tree, registered Rust types, imported names): Err iff a name is not a valid non-keyword identifier, a name is taken in its scope, a Rust type is registered twice, or a signature/constant/impl mentions an unregistered type; otherwise every item is reachable at its declaration path and through every use, independent of item order; never a panic. TLC enumerates all ordered libraries of <=3 (quick) / <=4 (thorough) items over a 13-item vocabulary x one injected defect x one or two add calls with the specified outcome and probes; the harness builds each library with the public constructors (and library!), calls Runtime::add under catch_unwind and compiles a script per probe; outcomes and tags are compared. Seeded random libraries registered and probed by the harness are validated by TLC (TraceRegistration.tla).",
        "note": "Exhaustive only over the stated vocabulary and bounds; where the property is silent (use of an empty/missing path, alias name equal to a declared name, where the alias of a use inside a module lands) only 'no panic' is required; error messages not compared; after an Err nothing is asserted.",
        "technique": "TLA+ spec (Registration) + TLC exhaustive library generation replayed through the public registration API + TLC trace validation of random registrations",
    },
    "C19": {
        "text": "TestRunner.tla is a transition system Compile/RunTest/Finish/CheckDone/RunEntry with invariants (each test exactly once, order = sorted full names, Ok iff all accept, tests neither callable nor shadowed, CLI exit table, run executes the entry once). TLC enumerates all packages with 0-3 tests x outcomes x declaration orders x 1-2 modules x same-named functions x one call, and all check/test/run invocations on valid/invalid scripts, emitting the expected mark log, verdict and exit class; each is replayed through Package::run_tests with a mark(k) host function and through the roto CLI built from /repo. Recorded runs of seeded random larger packages are validated by TLC (TraceTestRunner.tla).",
        "note": "The order key pkg[.mod]*.test#name in byte order is taken from the implementation (the documentation only says tests are found and run); only marker lines printed by the scripts are searched on stdout; exit codes classified 0 / non-zero / signal.",
        "technique": "TLA+ spec (TestRunner) + TLC enumeration of packages and CLI invocations replayed into run_tests and the CLI + TLC trace validation",
    },
    "C15": {
        "text": "ListSeq.tla specifies lists as one shared growable array (heap of sequences + aliased handles, one action per API operation). TLC enumerates every behaviour up to a history bound from four initial configurations (incl. aliasing and growth boundaries) plus seeded walks, and checks the design invariants; every behaviour is replayed step by step into roto::List<T>, compiled scripts and alternating for six element kinds (u8, u64, String, nested List, zero-sized tracked, 24-byte tracked), comparing each result and the live-element count with the specification. Long random histories recorded from the real lists (growth to >1000 elements) are validated as ListSeq behaviours by TLC (TraceListSeq.tla).",
        "note": "Exhaustive only within the stated bounds (history length 2-4, 2-3 handles, 2 abstract values); element kinds are representatives; capacity only required >= len; a stalled operation (20 s without progress for microsecond operations) counts as non-termination.",
        "technique": "TLA+ spec (ListSeq) + TLC exhaustive behaviour generation replayed into the implementation + TLC trace validation of recorded histories",
    },
}
