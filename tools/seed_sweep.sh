#!/bin/bash
# tools/seed_sweep.sh <seed> [ids...]: runs the quick tier of every check with VERIF_SEED=<seed> from the current
# directory (meant for `vp run`: the snapshot's own work/ and evidence/ are used, /verif's are not touched),
# prints one line per check.  A violation under another seed is either a genuine defect or a false alarm.
S=$1; shift
IDS=${*:-C01 C02 C03 C04 C05 C06 C07 C08 C09 C10 C11 C12 C13 C14 C15 C16 C17 C18 C19 C20}
HERE=$(pwd)
export VERIF_SEED=$S VERIF_WORK=$HERE/work VERIF_EVID=$HERE/evidence_sweep
mkdir -p $VERIF_EVID
for id in $IDS; do
  /usr/bin/time -f "%e s" nice -n 5 ./check $id --tier quick > sweep_${S}_$id.out 2>&1
  rc=$?
  echo "seed=$S $id exit=$rc $(grep -E '^VIOLATION|TOOL-ERROR' sweep_${S}_$id.out | head -2 | cut -c1-300)"
done
