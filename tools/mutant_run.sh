#!/bin/bash
# tools/mutant_run.sh <patch.diff> <ID> [<ID> ...]   (env TIER=quick|thorough)
# Applies a patch to a scratch worktree of /repo (never to /repo itself), builds a scratch copy of the
# harness against it and runs the given checks there. Everything is removed afterwards.
set -u
PATCH=$(readlink -f "$1"); shift
N=$$
WT=/tmp/mutwt_$N; MH=/tmp/muth_$N
cleanup() { git -C /repo worktree remove --force "$WT" >/dev/null 2>&1; rm -rf "$MH" "$WT"; }
trap cleanup EXIT
git -C /repo worktree add --detach "$WT" HEAD >/dev/null 2>&1 || { echo "worktree failed"; exit 2; }
if ! git -C "$WT" apply "$PATCH"; then echo "patch does not apply"; exit 2; fi
mkdir -p "$MH/.cargo" "$MH/work" "$MH/evidence"
sed "s#path = \"/repo\"#path = \"$WT\"#" /verif/harness/Cargo.toml > "$MH/Cargo.toml"
cp /verif/harness/Cargo.lock "$MH/Cargo.lock"
cp /verif/harness/.cargo/config.toml "$MH/.cargo/config.toml"
ln -s /verif/harness/src "$MH/src"
# reuse the compiled dependencies
cp -r /verif/harness/target "$MH/target" 2>/dev/null
rc=0
for id in "$@"; do
  echo "=== $id on $(basename "$PATCH")"
  VERIF_REPO="$WT" VERIF_HARNESS="$MH" VERIF_WORK="$MH/work" VERIF_EVID="$MH/evidence" \
    /verif/check "$id" --tier "${TIER:-quick}" > "$MH/out.txt" 2>&1
  rc=$?
  grep -E "^VIOLATION|^KNOWN-FINDING|TOOL-ERROR|^  " "$MH/out.txt" | cut -c1-400 | head -${LINES_MAX:-12}
  if [ $rc -ge 2 ]; then tail -15 "$MH/out.txt"; fi
  echo "exit=$rc"
done
