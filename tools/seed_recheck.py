#!/usr/bin/env python3
"""tools/seed_recheck.py <PID_mN> [check ids...]
Re-runs the given checks (default: the property the change breaks) against an already confirmed seeded change
(seeded/<PID_mN>/patch.diff, applied to a scratch worktree by tools/mutant_run.sh) and updates checks_run /
caught_by in its meta.json. The validity part of meta.json (confirmed by tools/seed_verify.sh) is left alone."""
import json, os, re, subprocess, sys
sid = sys.argv[1]
d = os.path.join("/verif/seeded", sid)
meta = json.load(open(os.path.join(d, "meta.json")))
checks = sys.argv[2:] or [meta["breaks_property"]]
runs = {c["check"]: c for c in meta.get("checks_run", [])}
for c in checks:
    p = subprocess.run(["/verif/tools/mutant_run.sh", os.path.join(d, "patch.diff"), c], capture_output=True, text=True,
                       env=dict(os.environ, LINES_MAX="2"))
    out = p.stdout + p.stderr
    m = re.findall(r"^exit=(\d+)", out, re.M)
    rc = int(m[-1]) if m else 2
    first = ""
    lines = out.splitlines()
    for i, l in enumerate(lines):
        if l.startswith("VIOLATION"):
            first = (lines[i + 1] if i + 1 < len(lines) else "")[:300]
            break
    if c in runs and runs[c]["exit"] == 0 and rc == 1:
        # missed by an earlier version of the check, caught now
        meta.setdefault("missed_at_first_run_by", [])
        if c not in meta["missed_at_first_run_by"]:
            meta["missed_at_first_run_by"].append(c)
    runs[c] = {"check": c, "exit": rc, "first": first}
meta["checks_run"] = list(runs.values())
meta["caught_by"] = [c["check"] for c in meta["checks_run"] if c["exit"] == 1]
json.dump(meta, open(os.path.join(d, "meta.json"), "w"), indent=1)
print(json.dumps({"id": sid, "caught_by": meta["caught_by"], "checks_run": [(c["check"], c["exit"]) for c in meta["checks_run"]]}))
