#!/bin/bash
# tools/run_all_quick.sh [ids...]: runs the quick tier of every check in /verif against /repo (the evidence files of
# the repository are rewritten) and validates every evidence file against the schema.
cd /verif
IDS=${*:-C01 C02 C03 C04 C05 C06 C07 C08 C09 C10 C11 C12 C13 C14 C15 C16 C17 C18 C19 C20}
mkdir -p work/_all
for id in $IDS; do
  /usr/bin/time -f "%e s" ./check $id --tier quick > work/_all/$id.out 2> work/_all/$id.err
  rc=$?
  echo "$id exit=$rc $(tail -1 work/_all/$id.err) $(grep -cE '^KNOWN-FINDING' work/_all/$id.out) known $(grep -E '^VIOLATION|TOOL-ERROR' work/_all/$id.out work/_all/$id.err | head -2 | cut -c1-200)"
done
python3-vt - <<'PY'
import json, glob, jsonschema
sch = json.load(open('/root/.vp/EVIDENCE.schema.json'))
bad = 0
for f in sorted(glob.glob('/verif/evidence/C*.json')):
    try:
        jsonschema.validate(json.load(open(f)), sch)
    except Exception as e:
        bad += 1
        print("INVALID", f, str(e)[:200])
print("evidence files valid" if not bad else "%d invalid evidence files" % bad)
PY
