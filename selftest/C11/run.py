#!/usr/bin/env python3
"""Selftest of the C11 check (not part of MANIFEST): every source mutation in this
directory is applied to a scratch copy of /repo (HEAD) outside /repo, a scratch copy of
the harness is built against it and the C11 check (quick tier) must report VIOLATION
(exit code 1); on the unmutated copy it must exit 0.

usage: python3 selftest/C11/run.py [name ...]      (scratch dir: /verif/work/C11/selftest)
"""
import glob
import os
import shutil
import subprocess
import sys

HERE = os.path.dirname(os.path.abspath(__file__))
VERIF = os.path.dirname(os.path.dirname(HERE))
S = os.path.join(VERIF, "work", "C11", "selftest")


def sh(cmd, **kw):
    return subprocess.run(cmd, shell=True, text=True, stdout=subprocess.PIPE, stderr=subprocess.STDOUT, **kw)


def prepare():
    os.makedirs(S, exist_ok=True)
    orig = os.path.join(S, "repo.orig")
    if not os.path.isdir(orig):
        os.makedirs(orig)
        p = sh("git -C /repo archive HEAD | tar -x -C %s" % orig)
        assert p.returncode == 0, p.stdout
    h = os.path.join(S, "harness")
    os.makedirs(h, exist_ok=True)
    for f in ("Cargo.toml", "Cargo.lock"):
        shutil.copy(os.path.join(VERIF, "harness", f), os.path.join(h, f))
    for d in ("src", ".cargo"):
        shutil.rmtree(os.path.join(h, d), ignore_errors=True)
        shutil.copytree(os.path.join(VERIF, "harness", d), os.path.join(h, d))
    # only the C11 driver is needed
    for b in glob.glob(os.path.join(h, "src", "bin", "*.rs")):
        if os.path.basename(b) != "c11.rs":
            os.remove(b)
    t = open(os.path.join(h, "Cargo.toml")).read().replace('path = "/repo"', 'path = "%s/repo"' % S)
    open(os.path.join(h, "Cargo.toml"), "w").write(t)


def run_check():
    code = ("import sys; sys.path.insert(0, %r); import vlib; vlib.HARNESS = %r; vlib.WORK = %r; vlib.EVID = %r; "
            "import checks.c11 as c\ntry:\n    rc = c.run('quick')\nexcept vlib.ToolError as e:\n    print('TOOL-ERROR', e); rc = 2\nsys.exit(rc)" %
            (os.path.join(VERIF, "lib"), os.path.join(S, "harness"), os.path.join(S, "work"), os.path.join(S, "evidence")))
    return sh("python3 -c %s" % subprocess.list2cmdline([code]), cwd=VERIF)


def main():
    prepare()
    names = sys.argv[1:] or ["none"] + sorted(os.path.basename(p)[:-5] for p in glob.glob(os.path.join(HERE, "*.diff")))
    bad = 0
    for name in names:
        repo = os.path.join(S, "repo")
        shutil.rmtree(repo, ignore_errors=True)
        shutil.copytree(os.path.join(S, "repo.orig"), repo)
        if name != "none":
            p = sh("patch -p1 < %s" % os.path.join(HERE, name + ".diff"), cwd=repo)
            assert p.returncode == 0, p.stdout
        p = run_check()
        lines = [l for l in p.stdout.splitlines() if l.startswith(("VIOLATION", "TOOL-ERROR", "KNOWN"))]
        want = 0 if name == "none" else 1
        ok = p.returncode == want
        bad += 0 if ok else 1
        print("%-45s exit=%s %s" % (name, p.returncode, "as expected" if ok else "UNEXPECTED"))
        for l in p.stdout.splitlines():
            if l.startswith("VIOLATION") or l.startswith("  "):
                print("    " + l[:300])
        if not ok:
            print(p.stdout[-3000:])
    shutil.rmtree(os.path.join(S, "repo"), ignore_errors=True)
    return 1 if bad else 0


if __name__ == "__main__":
    sys.exit(main())
