#!/usr/bin/env python3
"""Selftest of the C07 check (not part of MANIFEST).

Every *.diff in this directory is a source mutation of the type checker in the style of the
property's `why_tests_cant` (a dropped check, a lost MustBeSigned, arity let through ...).  Each is
applied to a scratch git worktree of /repo (never to /repo), a scratch copy of the harness is built
against it and the C07 check must report a VIOLATION other than the known findings (exit 1); on the
unmutated tree it must exit 0.  The known findings proposed for C07 (known_entries.json) are
injected, in case /verif/known_findings.json does not contain them yet.

usage: python3 selftest/C07/run.py [name ...]        (TIER=quick|thorough)
"""
import glob
import json
import os
import shutil
import subprocess
import sys

HERE = os.path.dirname(os.path.abspath(__file__))
VERIF = os.path.dirname(os.path.dirname(HERE))


def sh(cmd, **kw):
    return subprocess.run(cmd, shell=True, text=True, stdout=subprocess.PIPE, stderr=subprocess.STDOUT, **kw)


def run_one(name):
    n = os.getpid()
    wt, mh = "/tmp/c07wt_%d" % n, "/tmp/c07h_%d" % n
    try:
        p = sh("git -C /repo worktree add --detach %s HEAD" % wt)
        assert p.returncode == 0, p.stdout
        if name != "none":
            p = sh("git -C %s apply %s" % (wt, os.path.join(HERE, name + ".diff")))
            assert p.returncode == 0, "patch does not apply: " + p.stdout
        os.makedirs(mh + "/.cargo")
        t = open(VERIF + "/harness/Cargo.toml").read().replace('path = "/repo"', 'path = "%s"' % wt)
        open(mh + "/Cargo.toml", "w").write(t)
        shutil.copy(VERIF + "/harness/Cargo.lock", mh + "/Cargo.lock")
        shutil.copy(VERIF + "/harness/.cargo/config.toml", mh + "/.cargo/config.toml")
        os.makedirs(mh + "/src/bin")
        for f in ("lib.rs", "batch.rs", "tracked.rs", "util.rs", "bin/c07.rs"):
            shutil.copy(VERIF + "/harness/src/" + f, mh + "/src/" + f)
        sh("cp -r %s/harness/target %s/target" % (VERIF, mh))
        code = ("import sys, json; sys.path.insert(0, %r); import vlib\n"
                "extra = json.load(open(%r)); old = vlib.load_known\n"
                "vlib.load_known = lambda: [k for k in old() if k.get('id') not in {e['id'] for e in extra}] + extra\n"
                "import checks.c07 as c\n"
                "try:\n    rc = c.run(%r)\nexcept vlib.ToolError as e:\n    print('TOOL-ERROR', e); rc = 2\nsys.exit(rc)" %
                (VERIF + "/lib", os.path.join(HERE, "known_entries.json"), os.environ.get("TIER", "quick")))
        env = dict(os.environ, VERIF_REPO=wt, VERIF_HARNESS=mh, VERIF_WORK=mh + "/work", VERIF_EVID=mh + "/evidence")
        return sh("python3 -c %s" % subprocess.list2cmdline([code]), cwd=VERIF, env=env)
    finally:
        sh("git -C /repo worktree remove --force %s" % wt)
        shutil.rmtree(wt, ignore_errors=True)
        shutil.rmtree(mh, ignore_errors=True)


def main():
    names = sys.argv[1:] or ["none", "fixes/loop_body_divergence"] + sorted(os.path.basename(p)[:-5] for p in glob.glob(os.path.join(HERE, "*.diff")))
    bad = 0
    for name in names:
        p = run_one(name)
        want = 0 if (name == "none" or name.startswith("fixes/")) else 1
        lines = [l for l in p.stdout.splitlines() if l.startswith(("VIOLATION", "KNOWN-FINDING", "TOOL-ERROR", "  ILL-TYPED", "  the compiler"))]
        ok = p.returncode == want
        bad += 0 if ok else 1
        print("%-45s exit=%d %s" % (name, p.returncode, "as expected" if ok else "UNEXPECTED"))
        vio = [l for l in lines if not l.startswith("KNOWN-FINDING")]
        print("     known findings hit: %d" % sum(1 for l in lines if l.startswith("KNOWN-FINDING")))
        for l in vio[:4]:
            print("     " + l[:230])
        if p.returncode >= 2:
            print(p.stdout[-1500:])
    print("selftest C07: %d unexpected" % bad)
    return 1 if bad else 0


if __name__ == "__main__":
    sys.exit(main())
